"""C03 - concurrent use of one study is linearizable.

2-3 simulated threads/processes run short scripts of storage calls against one backend
under line-level pre-emption; the recorded invoke/return history plus the final state
read by a fresh observer must be linearizable against ModelStorage.
"""
from __future__ import annotations

import json
import random
from typing import Any

from checks import common
from simkit import deploy, gen, linearize, model, ops, sched, seams
from simkit.model import cf

ID = "C03"
LEVEL = "exploration"
BUDGET = {"quick": 50, "thorough": 900}

DEPLOYMENTS_QUICK = [
    ("mem", 3.0),
    ("jf-sym", 2.0),
    ("jf-open", 2.0),
    ("jr", 1.0),
    ("jr-cluster", 0.5),
    ("rdb", 3.0),
    ("cached", 2.0),
    ("grpc(mem)", 1.0),
    ("grpc(rdb)", 1.0),
    ("grpc(cached)", 0.7),
    ("grpc(jf-sym)", 0.7),
    ("grpc(jr)", 0.5),
]

EVIDENCE = {
    "rule": "one case = one simulated execution of a generated plan (deployment, 2-3 task scripts of 2-5 storage calls, scheduler decisions from the sched PRNG stream). Non-trivial = at least one context switch happened while another task was inside a storage call; distinct = distinct event-order digests (every scheduling decision and every recorded invoke/return/result is hashed).",
    "assumptions": [
        "tasks are real threads run one at a time; pre-emption points are every seam call and every source line of optuna/storages/**",
        "switches inside C calls (sqlite3, json, pickle) are represented at the seam boundary only",
        "SQLite file locking between two connections of one OS process stands in for two OS processes",
        "MySQL/PostgreSQL row locks (FOR UPDATE) are not simulated: SQLite ignores the clause",
        "histories are capped at 16 concurrent operations; the linearizability search has a node budget, exceeding it counts as inconclusive",
    ],
    "components": {
        "real": "optuna storages (in-memory, journal, RDB, cached, gRPC client cache and servicer), SQLAlchemy, sqlite3 engine, protobuf, json, pickle",
        "stub": "OS scheduler, threading.Lock/RLock, clocks, uuid, journal file system (SimFS), Redis (SimRedis), gRPC transport and server pool (SimNet), SQLite busy handler (virtual clock)",
    },
}

DOCUMENTED = {"KeyError", "ValueError", "RuntimeError", "DuplicatedStudyError", "UpdateFinishedTrialError"}


def available_deployments() -> list[tuple[str, float]]:
    import os

    only = os.environ.get("VERIF_DEPLOYMENTS")
    out = []
    for k, w in DEPLOYMENTS_QUICK:
        if only and k not in only.split(","):
            continue
        out.append((k, w))
    return out


# ---------------------------------------------------------------------- generation
def gen_plan(seed: int, run: int, tier: str) -> dict:
    rng = common.rng_for(seed, run, "work")
    kind = common.weighted(rng, available_deployments())
    ntasks = rng.choice([2, 2, 3]) if tier == "quick" else rng.choice([2, 3, 3, 4])
    names = ["a", "b", "c", "d"][:ntasks]
    if kind == "mem":
        procs = {n: "P0" for n in names}
    elif kind.startswith("grpc("):
        # client processes (each its own proxy/cache) or threads in one client
        procs = {n: ("P0" if rng.random() < 0.4 else "P%d" % i) for i, n in enumerate(names)}
    else:
        mode = rng.choice(["threads", "procs", "mixed"])
        if mode == "threads":
            procs = {n: "P0" for n in names}
        elif mode == "procs":
            procs = {n: "P%d" % i for i, n in enumerate(names)}
        else:
            procs = {n: "P%d" % min(i, 1) for i, n in enumerate(names)}
    g = gen.OpGen(rng, client="", deletes=False)
    # --- setup (sequential): shared study with RUNNING and WAITING trials
    setup: list[dict] = []
    nobj = rng.choice([1, 1, 2])
    dirs = [rng.choice(["MINIMIZE", "MAXIMIZE"]) for _ in range(nobj)]
    setup.append({"op": "create_new_study", "directions": dirs, "name": "shared", "as": "S0"})
    shared_running: list[str] = []
    shared_waiting: list[str] = []
    for i in range(rng.randint(0, 3)):
        h = "T%d" % len(shared_running + shared_waiting)
        if rng.random() < 0.55:
            setup.append({"op": "create_new_trial", "study": "S0", "as": h})
            shared_running.append(h)
        else:
            t = g.template(nobj)
            t.update({"state": "WAITING", "values": None, "has_start": False, "has_complete": False, "dt_start": None, "dt_complete": None})
            setup.append({"op": "create_new_trial", "study": "S0", "as": h, "template": t})
            shared_waiting.append(h)
    used_params: set = set()
    tasks: dict[str, dict] = {}
    for n in names:
        tasks[n] = {"proc": procs[n], "ops": _task_script(rng, g, n, nobj, shared_running, shared_waiting, used_params, rng.randint(2, 5) if ntasks < 4 else rng.randint(2, 4))}
    cfg = {
        "deployment": kind,
        "p_line": rng.choice([0.01, 0.03, 0.1]),
        "p_seam": rng.choice([0.1, 0.3, 0.6]),
        "read_block": rng.choice([16, 64, 512, 8192]),
        "chunked_write": rng.random() < 0.4,
        "grace_period": rng.choice([3, 10, 30]),
        # 0 = the busy handler gives up at once: "database is locked" surfaces as
        # StorageInternalError and the failed call must then have had no effect at all
        "busy_timeout": rng.choice([0.0, 5.0, 60.0, 300.0]),
        "pool": rng.choice([1, 2, 3, 10]),
        "snapshot_interval": rng.choice([2, 3, 100]),
        # pre-emption also inside copy.deepcopy (a reader that copies outside the lock sees a
        # torn snapshot); only for the cheap in-process backends
        "trace_copy": (not ("rdb" in kind or "cached" in kind)) and rng.random() < 0.3,
        "pickled_clients": rng.random() < 0.3,
    }
    if "jr" in kind and rng.random() < 0.35:
        # a writer held up before its append reaches Redis (cluster mode: between INCR and SET)
        cfg["redis_stalls"] = [{"nth": rng.randint(0, 8), "dur": rng.choice([0.5, 15.0, 40.0])} for _ in range(rng.randint(1, 2))]
    plan = {"check": ID, "seed": seed, "run": run, "cfg": cfg, "setup": setup, "tasks": tasks, "sched": {"seed": rng.getrandbits(48)}}
    if kind.startswith("grpc(") and rng.random() < 0.35:
        # connection resets: before delivery (the call is not executed) or after execution
        # (executed, the client sees UNAVAILABLE - the ambiguous case)
        plan["rpc_faults"] = [{"task": rng.choice(names), "nth": rng.randint(0, 6), "phase": rng.choice(["pre", "post"])} for _ in range(rng.randint(1, 2))]
    if kind in ("rdb", "cached") and rng.random() < 0.3:
        # a statement or a commit fails (I/O error, lost connection): the call raises
        # StorageInternalError and must not have had any effect; the worker goes on using
        # the same storage object
        plan["sql_faults"] = [{"task": rng.choice(names), "nth": rng.randint(0, 25), "at": rng.choice(["exec", "exec", "commit"])} for _ in range(rng.randint(1, 3))]
    if kind == "jr" and "redis_stalls" not in cfg and rng.random() < 0.35:
        # the connection to Redis fails: before a write command is sent (not executed) or
        # after the server executed it (reply lost: the call's outcome is ambiguous)
        plan["redis_faults"] = [{"task": rng.choice(names), "nth": rng.randint(0, 5), "phase": rng.choice(["pre", "post", "post"])} for _ in range(rng.randint(1, 2))]
        cfg["give_up_after_error"] = rng.random() < 0.5
    return plan


def _task_script(rng: random.Random, g: gen.OpGen, me: str, nobj: int, shared_running: list[str], shared_waiting: list[str], used_params: set, n: int) -> list[dict]:
    out: list[dict] = []
    own_trials: list[tuple[str, str]] = []  # (handle, state at creation)
    own_nobj: dict[str, int] = {}  # objectives of the study an own trial lives in
    own_studies: list[str] = []
    k = 0
    while len(out) < n:
        r = rng.random()
        if r < 0.22:
            h = "%sT%d" % (me, k)
            k += 1
            op: dict = {"op": "create_new_trial", "study": "S0", "as": h}
            state = "RUNNING"
            if own_studies and rng.random() < 0.3:
                op["study"] = rng.choice(own_studies)
            if rng.random() < 0.35:
                op["template"] = g.template(nobj if op["study"] == "S0" else 1)
                state = op["template"]["state"]
            own_trials.append((h, state))
            own_nobj[h] = nobj if op["study"] == "S0" else 1
            out.append(op)
        elif r < 0.30:
            h = "%sS%d" % (me, k)
            k += 1
            name = rng.choice(["dup", "dup", "other", "shared", me + "own"])
            out.append({"op": "create_new_study", "directions": ["MINIMIZE"], "name": name, "as": h})
            own_studies.append(h)
        elif r < 0.42:
            # claim / finish a shared trial
            cands = shared_waiting + shared_running
            if not cands:
                continue
            th = rng.choice(cands)
            if th in shared_waiting and rng.random() < 0.75:
                out.append({"op": "set_trial_state_values", "trial": th, "state": "RUNNING", "values": None})
            else:
                st = rng.choice(["COMPLETE", "COMPLETE", "FAIL", "PRUNED"])
                vals = [cf(g.objective_value()) for _ in range(nobj)] if st == "COMPLETE" else None
                out.append({"op": "set_trial_state_values", "trial": th, "state": st, "values": vals})
        elif r < 0.66:
            # writes to RUNNING trials (shared or own); never to WAITING ones (contract silent)
            cands = list(shared_running) + [h for h, s in own_trials if s != "WAITING"]
            if not cands:
                continue
            th = rng.choice(cands)
            kind = rng.choice(["param", "user", "system", "inter", "inter", "state"])
            if kind == "param":
                free = [p for p in gen.DISTS if (th, p) not in used_params]
                if not free:
                    continue
                name = rng.choice(free)
                used_params.add((th, name))
                dist = gen.DISTS[name] if rng.random() < 0.8 else gen.DISTS_BAD[name]
                out.append({"op": "set_trial_param", "trial": th, "name": name, "dist": dist, "value": cf(gen.sample_value(rng, dist))})
            elif kind == "user":
                out.append({"op": "set_trial_user_attr", "trial": th, "key": rng.choice(["a", "b"]), "value": "%s%d" % (me, g.uniq())})
            elif kind == "system":
                out.append({"op": "set_trial_system_attr", "trial": th, "key": rng.choice(["a", "b"]), "value": "%s%d" % (me, g.uniq())})
            elif kind == "inter":
                out.append({"op": "set_trial_intermediate_value", "trial": th, "step": rng.randint(0, 2), "value": cf(g.uniq() * 1.0)})
            else:
                if th in [h for h, s in own_trials]:
                    st = rng.choice(["COMPLETE", "FAIL"])
                    vals = [cf(g.objective_value()) for _ in range(own_nobj.get(th, nobj))] if st == "COMPLETE" else None
                    out.append({"op": "set_trial_state_values", "trial": th, "state": st, "values": vals})
        elif r < 0.70:
            out.append({"op": rng.choice(["set_study_user_attr", "set_study_system_attr"]), "study": "S0", "key": rng.choice(["a", "b"]), "value": "%s%d" % (me, g.uniq())})
        elif r < 0.72:
            # delete a study created by this task (later writes to its trials must raise KeyError)
            if own_studies:
                out.append({"op": "delete_study", "study": rng.choice(own_studies)})
            else:
                continue
        else:
            kind = rng.choice(["get_all_trials", "get_all_trials", "get_trial", "get_n_trials", "number_lookup", "get_best_trial", "get_all_studies", "get_study_id_from_name", "get_study_user_attrs"])
            if kind == "get_all_trials":
                f = rng.choice(ops.STATE_FILTERS[:4])
                out.append({"op": "get_all_trials", "study": "S0", "states": None if f is None else list(f), "deepcopy": rng.random() < 0.5})
            elif kind == "get_trial":
                cands = shared_running + shared_waiting + [h for h, _ in own_trials]
                if not cands:
                    continue
                out.append({"op": "get_trial", "trial": rng.choice(cands)})
            elif kind == "get_n_trials":
                out.append({"op": "get_n_trials", "study": "S0", "states": None})
            elif kind == "number_lookup":
                out.append({"op": "get_trial_id_from_study_id_trial_number", "study": "S0", "number": rng.randint(0, 5)})
            elif kind == "get_best_trial":
                out.append({"op": "get_best_trial", "study": "S0"})
            elif kind == "get_all_studies":
                out.append({"op": "get_all_studies"})
            elif kind == "get_study_id_from_name":
                out.append({"op": "get_study_id_from_name", "name": rng.choice(["dup", "other", "shared"])})
            else:
                out.append({"op": "get_study_user_attrs", "study": "S0"})
    return out


# ---------------------------------------------------------------------- execution
def shrink_paths(plan: dict) -> list[tuple]:
    paths: list[tuple] = [("tasks", n, "ops") for n in plan["tasks"]]
    paths.append(("setup",))
    if "rpc_faults" in plan:
        paths.append(("rpc_faults",))
    if "redis_faults" in plan:
        paths.append(("redis_faults",))
    if "sql_faults" in plan:
        paths.append(("sql_faults",))
    paths.append(("sched", "table"))
    return paths


def signature_class(sig: str) -> str:
    return "|".join(sig.split("|")[:4])


def sample_view(plan: dict, res: dict) -> dict:
    return {"deployment": plan["cfg"]["deployment"], "tasks": {n: {"proc": t["proc"], "ops": [_short(o) for o in t["ops"]]} for n, t in plan["tasks"].items()}, "switches": res["switches"], "status": res["status"]}


def _short(o: dict) -> str:
    bits = [o["op"]]
    for k in ("study", "trial", "as", "state", "name", "key"):
        if k in o and o[k] is not None:
            bits.append("%s=%s" % (k, o[k]))
    if o.get("template"):
        bits.append("template=" + o["template"]["state"])
    return " ".join(bits)


def trace_files(kind: str) -> tuple[str, ...]:
    return common.TRACE_STORAGE


def run_plan(plan: dict) -> dict:
    import gc

    cfg = plan["cfg"]
    kind = cfg["deployment"]
    ch = common.make_chooser(plan)
    sim = sched.Sim(ch, trace_suffixes=trace_files(kind) + (("/copy.py",) if cfg.get("trace_copy") else ()), max_steps=60000, uuid_salt=str(plan.get("run", 0)))
    dep = deploy.Deployment(sim, kind, cfg)
    try:
        return _run(plan, sim, ch, dep)
    finally:
        dep.close()


def _run(plan: dict, sim: sched.Sim, ch: sched.Chooser, dep: deploy.Deployment, cid: str = ID, post: Any = None) -> dict:
    cfg = plan["cfg"]
    kind = cfg["deployment"]
    m = model.ModelStorage()
    env = linearize.EnvState()
    mode = "threads" if len({t["proc"] for t in plan["tasks"].values()}) == 1 else "procs"
    prefix = "%s|%s|%s|" % (cid, kind, mode)
    procs: dict[str, Any] = {}
    for n, t in sorted(plan["tasks"].items()):
        if t["proc"] not in procs:
            procs[t["proc"]] = sim.proc(t["proc"])
    storages = {pn: dep.client(p) for pn, p in procs.items()}
    # setup, sequential, through the first client
    first = storages[sorted(storages)[0]]
    for op in plan["setup"]:
        r = ops.apply_real(first, op, env)
        c = ops.apply_model(m, op, env, r)
        if c[0] == "diff":
            return common.result(sim, ch, "violation", prefix + "setup-diff", c[1], nontrivial=False)
    if "S0" not in env.real:
        return common.result(sim, ch, "ok", nontrivial=False)
    history: list[dict] = []
    rpc_faults = [dict(f) for f in plan.get("rpc_faults", [])]
    rpc_count: dict[str, int] = {}
    if dep.server is not None and rpc_faults:

        def rpc_fault(task: str, method: str, phase: str) -> bool:
            if phase == "pre":
                rpc_count[task] = rpc_count.get(task, 0) + 1
            for f in rpc_faults:
                if f["task"] == task and f["phase"] == phase and f["nth"] == rpc_count.get(task, 0) - 1 and not f.get("fired"):
                    f["fired"] = True
                    return True
            return False

        dep.server.fault = rpc_fault

    sql_faults = [dict(f) for f in plan.get("sql_faults", [])]
    sql_hit: dict[str, int] = {}
    if getattr(dep, "db", None) is not None and sql_faults:
        nsql: dict[tuple, int] = {}

        def sql_fault(task: Any, skind: str, word: str) -> bool:
            if task is None or task.name not in plan["tasks"]:
                return False
            at = "commit" if skind == "sql.commit" else "exec"
            key = (task.name, at)
            nsql[key] = nsql.get(key, 0) + 1
            for f in sql_faults:
                if not f.get("fired") and f["task"] == task.name and f["at"] == at and f["nth"] == nsql[key] - 1:
                    f["fired"] = True
                    sql_hit[task.name] = sql_hit.get(task.name, 0) + 1
                    return True
            return False

        dep.db.fault = sql_fault
    redis_faults = [dict(f) for f in plan.get("redis_faults", [])]
    if dep.redis is not None and redis_faults:
        nwrite: dict[str, int] = {}

        def redis_fault(task: Any, op: str, key: str, phase: str) -> Any:
            if op not in ("eval", "incr", "set") or (op == "set" and ":log:" not in key):
                return None
            if phase == "pre":
                nwrite[task.name] = nwrite.get(task.name, 0) + 1
            for f in redis_faults:
                if not f.get("fired") and f["task"] == task.name and f["phase"] == phase and f["nth"] == nwrite.get(task.name, 0) - 1:
                    f["fired"] = True
                    return "error"
            return None

        dep.redis.fault = redis_fault

    def make_task(name: str, t: dict) -> Any:
        st = storages[t["proc"]]

        def body() -> None:
            for op in t["ops"]:
                h = {"task": name, "op": op, "inv": sim.stamp(), "ret": None, "res": None}
                sim.note("inv", name, op["op"])
                hits0 = sql_hit.get(name, 0)
                res = ops.apply_real(st, op, env)
                if res[0] == "skip":
                    continue
                if res[0] == "ok" and op["op"] in ("create_new_study", "create_new_trial"):
                    env.real[op["as"]] = res[1][1]
                if res[0] == "err" and res[1] == "StorageInternalError" and sql_hit.get(name, 0) > hits0:
                    # the injected statement/commit failure: the caller cannot know whether the
                    # call took effect (e.g. create_new_study commits, then looks the id up in
                    # a second transaction) - wholly applied or wholly absent, nothing else
                    sim.count("op_failed_sql_error")
                    sim.note("sql-failed", name, op["op"])
                    if not op["op"].startswith("get_"):
                        h["res"] = None
                        h["ret"] = None
                        history.append(h)
                    continue
                if res[0] == "err" and (res[1] == "StorageInternalError" or (res[1] == "SimRpcError" and "StorageInternalError" in res[2])) and cfg.get("busy_timeout") == 0.0 and ("rdb" in kind or "cached" in kind):
                    # SQLITE_BUSY with an exhausted busy timeout: a failed call, to be
                    # linearised as a no-op (the final state must not show any part of it)
                    sim.count("op_failed_database_locked")
                    sim.note("busy-failed", name, op["op"])
                    continue
                if res[0] == "err" and res[1].endswith("ConnectionError") and "(simulated)" in res[2]:
                    if "before the command was sent" in res[2] and kind == "jr":
                        # one atomic script per record: nothing was executed
                        sim.note("redis-error-pre", name, op["op"])
                        continue
                    # reply lost after execution - or, in cluster mode, a log number may have
                    # been reserved before the failure: outcome unknown to the caller
                    h["res"] = None
                    h["ret"] = None
                    sim.note("redis-error", name, op["op"])
                    history.append(h)
                    if op["op"].startswith("get_"):
                        history.pop()
                    if cfg.get("give_up_after_error"):
                        # the worker drops this storage object (as a crashed job would)
                        sim.count("worker_gave_up_after_connection_error")
                        return
                    continue
                if res[0] == "err" and res[1] == "SimRpcError" and "connection reset" in res[2]:
                    if "before delivery" in res[2]:
                        sim.note("rpc-reset-pre", name, op["op"])
                        continue  # never executed: must have no effect (the final state checks that)
                    # executed, outcome unknown to the client: ambiguous operation
                    h["res"] = None
                    h["ret"] = None
                    sim.note("rpc-reset-post", name, op["op"])
                    history.append(h)
                    if op["op"].startswith("get_"):
                        history.pop()
                    continue
                h["res"] = res
                h["ret"] = sim.stamp()
                sim.note("ret", name, res[:2] if res[0] == "err" else _digestable(res))
                history.append(h)
            if hasattr(st, "remove_session"):
                st.remove_session()

        return body

    tasks = []
    for n, t in sorted(plan["tasks"].items()):
        tasks.append(sim.spawn(procs[t["proc"]], n, make_task(n, t)))
    status = sim.run()
    if status == "deadlock":
        why = "; ".join("%s blocked on %s" % (t.name, t.blocked_why) for t in tasks if not t.done)
        return common.result(sim, ch, "violation", prefix + "deadlock", why)
    if status == "stepcap":
        return common.result(sim, ch, "inconclusive", None, "step cap")
    for t in tasks:
        if t.exc is not None:
            raise RuntimeError("task %s died: %r" % (t.name, t.exc)) from t.exc
    # unexpected exception classes are reported directly (readable signature)
    for h in history:
        if h["res"] is not None and h["res"][0] == "err" and h["res"][1] not in DOCUMENTED:
            return common.result(sim, ch, "violation", prefix + "unexpected-exception|%s in %s" % (h["res"][1], h["op"]["op"]), "%s %s -> %s" % (h["task"], json.dumps(h["op"])[:300], h["res"][2]))
    # final state read by a fresh observer, appended as sequential reads
    seams.set_sim(sim, dep.fs)
    obs = dep.observer()
    studies = [h for h in env.real if "S" in h and "T" not in h]
    trials = [h for h in env.real if "T" in h]
    for op in gen.sweep_ops(None, sorted(studies), sorted(trials), light=True):
        inv = sim.stamp()
        res = ops.apply_real(obs, op, env)
        history.append({"task": "observer", "op": op, "inv": inv, "ret": sim.stamp(), "res": res})
    lin = linearize.check(history, m, env, max_nodes=60000)
    if lin["inconclusive"]:
        return common.result(sim, ch, "inconclusive", None, "linearizability search budget")
    if not lin["ok"]:
        # Is it only the *reads* of the concurrent phase that cannot be placed?  Then the
        # writes and the final state are linearizable and some read was not atomic.
        kind_of = "nonlinearizable"
        wonly = [h for h in history if h["task"] == "observer" or not h["op"]["op"].startswith("get_")]
        if len(wonly) < len(history):
            lin2 = linearize.check(wonly, m, env, max_nodes=60000)
            if lin2["ok"] and not lin2["inconclusive"]:
                # torn (a mix that never existed - finding F10 on SQLite) or stale (a consistent
                # but outdated snapshot served to a call that began after newer writes returned)?
                reads = [h for h in history if h["task"] != "observer" and h["op"]["op"].startswith("get_") and h["res"] is not None]
                culprits = []
                for r in reads:
                    rest = [h for h in history if h is not r]
                    lr = linearize.check(rest, m, env, max_nodes=30000)
                    if lr["ok"] and not lr["inconclusive"]:
                        culprits.append(r)
                if not culprits:
                    culprits = reads
                stale = [r for r in culprits if linearize.read_matches_some_state(wonly, lin2["order"], m, env, r)]
                if stale and len(stale) == len(culprits):
                    kind_of = "stale-read"
                elif not stale:
                    kind_of = "torn-read"
                else:
                    kind_of = "torn-read" if any(r not in stale for r in culprits) and len(culprits) > 1 else "stale-read"
        lost = {f["task"] for f in redis_faults if f.get("fired")}
        if lost:
            # A call whose reply was lost left its record in the journal.  If that record is
            # one that the issuer rejects (duplicate study, finished trial ...), the error
            # surfaces out of whichever *later* call of that worker replays it.  Is that the
            # only thing wrong?  Take such late errors out (a getter told nothing; a writer's
            # own record is in the log: outcome ambiguous) and look again.
            h2 = []
            late = []
            seen_amb: set = set()
            for h in history:
                if h["task"] in lost and h["ret"] is None and h["res"] is None:
                    seen_amb.add(h["task"])
                    h2.append(h)
                    continue
                if h["task"] in seen_amb and h["res"] is not None and h["res"][0] == "err" and h["res"][1] in ("UpdateFinishedTrialError", "DuplicatedStudyError", "KeyError", "ValueError"):
                    late.append(h)
                    if not h["op"]["op"].startswith("get_"):
                        h2.append(dict(h, res=None, ret=None))
                    continue
                h2.append(h)
            if late:
                lin4 = linearize.check(h2, m, env, max_nodes=60000)
                if lin4["ok"] and not lin4["inconclusive"]:
                    kind_of = "late-error-after-lost-reply"
                    lin = dict(lin, why="%s %s raised %s: the error belongs to the earlier call whose reply was lost" % (late[0]["task"], late[0]["op"]["op"], late[0]["res"][1]))
        if kind_of == "nonlinearizable":
            # two concurrent set_trial_param calls with incompatible distributions for one
            # name both succeeded?  (check-then-insert without a lock in the RDB backend)
            okp = [h for h in history if h["op"]["op"] == "set_trial_param" and h["res"] is not None and h["res"][0] == "ok"]
            keys: dict[str, set] = {}
            for h in okp:
                keys.setdefault(h["op"]["name"], set()).add(json.dumps(ops.compat_key(h["op"]["dist"])))
            if any(len(v) > 1 for v in keys.values()):
                m2 = m.clone()
                m2.relax_compat = True
                lin3 = linearize.check(history, m2, env, max_nodes=60000)
                if lin3["ok"] and not lin3["inconclusive"]:
                    kind_of = "param-compat-race"
        hist = ["%s[%s..%s] %s -> %s" % (h["task"], h["inv"], h["ret"], _short(h["op"]), "AMBIGUOUS (connection reset after execution)" if h["ret"] is None else _res_short(h["res"])) for h in history if h["task"] != "observer"]
        return common.result(sim, ch, "violation", prefix + kind_of + "|" + lin["why"][:160], "history:\n  " + "\n  ".join(hist) + "\ndeepest failure: " + lin["why"])
    if post is not None:
        r = post({"history": history, "env": env, "dep": dep, "storages": storages, "model0": m, "lin": lin, "prefix": prefix, "sim": sim, "ch": ch})
        if r is not None:
            return r
    return common.result(sim, ch, "ok", extra_counters={"lin_nodes": lin["nodes"], "history_ops": len(history)})


def _digestable(res: tuple) -> Any:
    return json.dumps(res, sort_keys=True, default=str)[:400]


def _res_short(res: tuple) -> str:
    if res[0] == "err":
        return "raise " + res[1]
    return json.dumps(res[1], default=str)[:120]
