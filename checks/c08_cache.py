"""C08 - client-side trial caches never serve a view that differs from the backend.

Mode "clients": one SQLite database, 2-4 clients drawn from {_CachedStorage, raw
RDBStorage, GrpcStorageProxy -> servicer(_CachedStorage), GrpcStorageProxy ->
servicer(RDBStorage)}, 1-3 studies sharing the trial-id space; the scheduler interleaves
the clients' calls (call granularity; each call and its check are atomic under a harness
gate).  *Reads are operations of the plan* (a read synchronises a cache, so polling after
every write would hide the bugs): at each planned read the client's get_all_trials (every
state filter, deepcopy both ways), get_trial for every id, number->id lookup, study name
and directions must equal what the checker's own raw RDBStorage returns at that moment.
RPC resets around GetTrials/GetTrial are injected for proxy clients.
Mode "threads": 2-3 threads inside one _CachedStorage / one GrpcStorageProxy under
line-level pre-emption; the history must be linearizable (C03 machinery, read-heavy).
"""
from __future__ import annotations

import json
from typing import Any

import linecache

from checks import c03_linear as c03
from checks import common
from simkit import deploy, gen, net, ops, sched, seams
from simkit.model import canon_trial, cf

ID = "C08"
LEVEL = "exploration"
BUDGET = {"quick": 55, "thorough": 900}
CLIENT_KINDS = [("cached", 3.0), ("raw", 1.5), ("grpc-cached", 2.0), ("grpc-rdb", 2.0)]

EVIDENCE = {
    "rule": "one case = one simulated multi-client history on one SQLite file (mode clients) or one threaded history inside one caching client (mode threads); non-trivial = at least 2 clients of which one caches, at least one planned read after a write by another client (clients mode) / at least one context switch inside a storage call (threads mode); distinct = distinct event-order digests.",
    "assumptions": [
        "ground truth is the checker's own raw RDBStorage on the same SQLite file, read in the same atomic step as the client's read",
        "reads are planned operations (rate drawn per run), never issued by the checker after every write",
        "deleting a study through another client is generated at low rate; upstream documents that the proxy does not invalidate then - expected as known finding F11 with its own signature",
        "gRPC transport and server pool are simulated (SimNet); resets are injected before delivery (not executed) and after execution; duplicated delivery is not injected (grpc never re-sends a unary call)",
    ],
    "components": {"real": "_CachedStorage, GrpcStorageProxy + GrpcClientCache, OptunaStorageProxyService, RDBStorage, SQLAlchemy, sqlite3, protobuf", "stub": "gRPC transport/server pool, OS scheduler, locks, clocks, SQLite busy handler"},
}


def gen_plan(seed: int, run: int, tier: str) -> dict:
    rng = common.rng_for(seed, run, "work")
    if rng.random() < 0.45:
        return _gen_threads(seed, run, tier, rng)
    if rng.random() < 0.5:
        return _gen_scenario(seed, run, tier, rng)
    nclients = rng.choice([2, 2, 3, 3, 4])
    kinds = [common.weighted(rng, CLIENT_KINDS) for _ in range(nclients)]
    if not any(k != "raw" for k in kinds):
        kinds[0] = "cached"
    g = gen.OpGen(rng, client="", deletes=rng.random() < 0.25, getters=False, unknown_ids=False, max_studies=3, max_trials=8)
    read_rate = rng.choice([0.15, 0.25, 0.4])
    n = rng.randint(10, 28 if tier == "quick" else 50)
    clients: dict[str, dict] = {"k%d" % i: {"kind": k, "ops": []} for i, k in enumerate(kinds)}
    names = sorted(clients)
    for _ in range(n):
        c = rng.choice(names)
        if rng.random() < 0.04 and clients[c]["kind"] in ("cached", "raw"):
            # the storage object is pickled and re-created (spawned worker, deepcopy, checkpoint)
            clients[c]["ops"].append({"op": "repickle"})
            continue
        if g.live_studies() and rng.random() < read_rate:
            sh = rng.choice(g.live_studies() + [h for h, s in g.studies.items() if not s["live"]][:1])
            r = rng.random()
            if r < 0.45 and g.trials:
                # a single get_trial / number lookup, *without* a preceding get_all_trials
                clients[c]["ops"].append({"op": "read_trial", "trial": rng.choice(sorted(g.trials)), "lookup": rng.random() < 0.3})
            else:
                clients[c]["ops"].append({"op": "read_check", "study": sh, "filters": sorted(rng.sample(range(len(ops.STATE_FILTERS)), 2)), "full": rng.random() < 0.3})
        else:
            clients[c]["ops"].append(g.next_op())
    # RPC resets for proxy clients
    faults = []
    for c in names:
        if clients[c]["kind"].startswith("grpc") and rng.random() < 0.65:
            for _ in range(rng.randint(1, 3)):
                faults.append({"client": c, "method": rng.choice(["GetTrials", "GetTrials", "GetTrials", "GetTrials", "GetTrial", "SetTrialStateValues", "CreateNewTrial"]), "nth": rng.randint(0, 6), "phase": rng.choice(["pre", "post"])})
    cfg = {"mode": "clients", "deployment": "mixed", "p_line": 0.0, "p_seam": rng.choice([0.2, 0.5, 0.8]), "pool": rng.choice([1, 2, 3]), "busy_timeout": 60.0}
    plan = {"check": ID, "seed": seed, "run": run, "cfg": cfg, "clients": clients, "faults": faults, "sched": {"seed": rng.getrandbits(48)}}
    _add_sql_faults(plan, rng)
    return plan


def _add_sql_faults(plan: dict, rng: Any) -> None:
    """Some SELECTs of a caching client fail once (I/O error; the RDB layer has a fallback
    path for a failing incremental trial query): the client's view must stay right."""
    cached = [n for n, c in plan["clients"].items() if c["kind"] == "cached"]
    if cached and rng.random() < 0.25:
        # a KeyboardInterrupt (Ctrl-C, notebook interrupt, alarm handler) lands at some source
        # line of _CachedStorage while the client is *reading*; the client lives on
        plan["line_interrupts"] = [{"client": rng.choice(cached), "nth": rng.randint(0, 400)} for _ in range(rng.randint(1, 3))]
        return
    if cached and rng.random() < 0.4:
        plan["sql_faults"] = [{"client": rng.choice(cached), "nth": rng.randint(0, 40)} for _ in range(rng.randint(1, 4))]


def _gen_scenario(seed: int, run: int, tier: str, rng: Any) -> dict:
    """Phased multi-client history around the cache's weak spots (phases are barriers; inside
    a phase the scheduler interleaves the clients): trials finish out of creation order, so a
    reader's fetch watermark moves past older unfinished trials; then an *event* hits one
    caching client (failed GetTrials, pickle round trip, nothing); then the older trials
    change and everybody reads again."""
    kinds = [rng.choice(["cached", "grpc-cached", "grpc-rdb", "grpc-rdb"]), common.weighted(rng, CLIENT_KINDS)]
    if rng.random() < 0.5:
        kinds.append(common.weighted(rng, CLIENT_KINDS))
    names = ["k%d" % i for i in range(len(kinds))]
    clients: dict[str, dict] = {n: {"kind": k, "ops": []} for n, k in zip(names, kinds)}
    if rng.random() < 0.15:
        return _gen_heartbeat_scenario(seed, run, rng, kinds)
    if rng.random() < 0.3:
        # delete-and-recreate: a study is deleted by one client, the readers are told so
        # (KeyError), then its id is re-used by a new study (SQLite re-uses ids)
        gg = gen.OpGen(rng, client="", deletes=False, getters=False, unknown_ids=False, max_studies=1, max_trials=8, multi_objective=False)
        w = rng.choice(names)
        readers0 = [n for n in names if clients[n]["kind"] != "raw"]

        def add0(c: str, phase: int, op: dict) -> None:
            op = dict(op)
            op["phase"] = phase
            clients[c]["ops"].append(op)

        add0(w, 0, {"op": "create_new_study", "directions": ["MINIMIZE"], "name": "old", "as": "S0"})
        for i in range(rng.randint(2, 4)):
            add0(rng.choice(names), 1, {"op": "create_new_trial", "study": "S0", "as": "T%d" % i})
            if rng.random() < 0.7:
                add0(rng.choice(names), 2, {"op": "set_trial_state_values", "trial": "T%d" % i, "state": "COMPLETE", "values": [cf(gg.objective_value())]})
        for c in readers0:
            add0(c, 3, {"op": "read_check", "study": "S0", "filters": [0, 1], "full": rng.random() < 0.5})
        add0(w, 4, {"op": "delete_study", "study": "S0"})
        for c in readers0:
            if rng.random() < 0.7:
                add0(c, 5, {"op": "read_check", "study": "S0", "filters": [0], "full": False})
            elif c != w:
                # the client tries to delete the study itself and is told that it is gone
                add0(c, 5, {"op": "delete_study", "study": "S0"})
        add0(rng.choice(names), 6, {"op": "create_new_study", "directions": ["MAXIMIZE"], "name": "new", "as": "S1"})
        for i in range(rng.randint(1, 3)):
            add0(rng.choice(names), 7, {"op": "create_new_trial", "study": "S1", "as": "N%d" % i})
            if rng.random() < 0.6:
                add0(rng.choice(names), 8, {"op": "set_trial_state_values", "trial": "N%d" % i, "state": "COMPLETE", "values": [cf(gg.objective_value())]})
        for c in readers0:
            add0(c, 9, {"op": "read_check", "study": "S1", "filters": [0, 1], "full": True})
        for c_ in clients.values():
            c_["ops"].sort(key=lambda o: o.get("phase", 0))  # stable: a client works phase by phase
        cfg0 = {"mode": "clients", "deployment": "mixed", "scenario": "delete-recreate", "p_line": 0.0, "p_seam": rng.choice([0.2, 0.5, 0.8]), "pool": rng.choice([1, 2, 3]), "busy_timeout": 60.0}
        return {"check": ID, "seed": seed, "run": run, "cfg": cfg0, "clients": clients, "faults": [], "sched": {"seed": rng.getrandbits(48)}}
    writer = rng.choice(names)
    nobj = 1
    ntr = rng.randint(3, 5)

    def add(c: str, phase: int, op: dict) -> None:
        op = dict(op)
        op["phase"] = phase
        clients[c]["ops"].append(op)

    g = gen.OpGen(rng, client="", deletes=False, getters=False, unknown_ids=False, max_studies=1, max_trials=8, multi_objective=False)
    add(writer, 0, {"op": "create_new_study", "directions": ["MINIMIZE"], "name": "scn", "as": "S0"})
    if rng.random() < 0.4:
        add(rng.choice(names), 0, {"op": "create_new_study", "directions": ["MAXIMIZE"], "name": "other", "as": "S1"})
    trials = []
    for i in range(ntr):
        h = "T%d" % i
        trials.append(h)
        op: dict = {"op": "create_new_trial", "study": "S0", "as": h}
        if rng.random() < 0.25:
            t = g.template(nobj)
            t.update({"state": "WAITING", "values": None, "has_start": False, "has_complete": False, "dt_start": None, "dt_complete": None})
            op["template"] = t
        add(rng.choice(names), 1, op)
    readers = [n for n in names if clients[n]["kind"] != "raw"]

    def read_ops(c: str, phase: int) -> None:
        r = rng.random()
        if r < 0.7:
            add(c, phase, {"op": "read_check", "study": "S0", "filters": sorted(rng.sample(range(len(ops.STATE_FILTERS)), 2)), "full": rng.random() < 0.5})
        if r > 0.4:
            add(c, phase, {"op": "read_trial", "trial": rng.choice(trials), "lookup": rng.random() < 0.3})

    for c in readers:
        if rng.random() < 0.8:
            read_ops(c, 2)
    # later trials finish first
    late = trials[ntr // 2 :]
    early = trials[: ntr // 2] or trials[:1]
    for h in late:
        if rng.random() < 0.85:
            add(rng.choice(names), 3, {"op": "set_trial_state_values", "trial": h, "state": rng.choice(["COMPLETE", "COMPLETE", "FAIL", "RUNNING"]), "values": [cf(g.objective_value())]})
    for c in names:
        for o in clients[c]["ops"]:
            if o.get("op") == "set_trial_state_values" and o["state"] != "COMPLETE":
                o["values"] = None
    for c in readers:
        if rng.random() < 0.8:
            read_ops(c, 4)
    # the event
    victim = rng.choice(readers)
    faults = []
    ev = rng.choice(["rpc", "rpc", "repickle", "none"])
    if ev == "repickle" and clients[victim]["kind"] == "cached":
        add(victim, 5, {"op": "repickle"})
    elif ev == "rpc" and clients[victim]["kind"].startswith("grpc"):
        add(victim, 5, {"op": "read_check", "study": "S0", "filters": [0], "full": False, "expect_fault": True})
        faults.append({"client": victim, "method": "GetTrials", "phase": rng.choice(["pre", "post"]), "in_phase": 5})
    # the older trials change
    for h in early:
        k = rng.choice(["attr", "state", "inter", "param"])
        c = rng.choice(names)
        if k == "attr":
            add(c, 6, {"op": "set_trial_user_attr", "trial": h, "key": "a", "value": "v%d" % g.uniq()})
        elif k == "inter":
            add(c, 6, {"op": "set_trial_intermediate_value", "trial": h, "step": 1, "value": cf(g.uniq() * 1.0)})
        elif k == "param":
            add(c, 6, {"op": "set_trial_param", "trial": h, "name": "x", "dist": gen.DISTS["x"], "value": cf(0.5)})
        else:
            add(c, 6, {"op": "set_trial_state_values", "trial": h, "state": "COMPLETE", "values": [cf(g.objective_value())]})
    if rng.random() < 0.5:
        t = g.template(nobj)
        add(rng.choice(names), 6, {"op": "create_new_trial", "study": "S0", "as": "T9", "template": t})
        trials.append("T9")
    for c in readers:
        read_ops(c, 7)
        if rng.random() < 0.5:
            read_ops(c, 7)
    for c_ in clients.values():
        c_["ops"].sort(key=lambda o: o.get("phase", 0))
    cfg = {"mode": "clients", "deployment": "mixed", "scenario": True, "p_line": 0.0, "p_seam": rng.choice([0.2, 0.5, 0.8]), "pool": rng.choice([1, 2, 3]), "busy_timeout": 60.0}
    plan = {"check": ID, "seed": seed, "run": run, "cfg": cfg, "clients": clients, "faults": faults, "sched": {"seed": rng.getrandbits(48)}}
    _add_sql_faults(plan, rng)
    return plan


def _gen_heartbeat_scenario(seed: int, run: int, rng: Any, kinds: list[str]) -> dict:
    """Stale-trial recovery through a caching client: trials that are themselves retries
    (they carry a retry history) lose their workers; a caching client with heartbeats enabled
    sweeps them, its failure callback looks at the study and enqueues the retries; afterwards
    every client's view must still equal the database."""
    kinds = ["cached"] + [k if k in ("cached", "raw") else rng.choice(["cached", "raw", k]) for k in kinds[1:]]
    names = ["k%d" % i for i in range(len(kinds))]
    clients: dict[str, dict] = {n: {"kind": k, "ops": []} for n, k in zip(names, kinds)}
    hb = rng.choice([1, 2])
    grace = rng.choice([None, 2 * hb + 1, 4 * hb])

    def add(c: str, phase: int, op: dict) -> None:
        op = dict(op)
        op["phase"] = phase
        clients[c]["ops"].append(op)

    g = gen.OpGen(rng, client="", deletes=False, getters=False, unknown_ids=False, max_studies=1, max_trials=8, multi_objective=False)
    add(rng.choice(names), 0, {"op": "create_new_study", "directions": ["MINIMIZE"], "name": "hb", "as": "S0"})
    local = [n for n in names if clients[n]["kind"] in ("cached", "raw")]  # heartbeats need the RDB API
    ntr = rng.randint(2, 4)
    beating = []
    for i in range(ntr):
        h = "T%d" % i
        op: dict = {"op": "create_new_trial", "study": "S0", "as": h}
        if i > 0 and rng.random() < 0.8:
            t = g.template(1)
            hist = list(range(i)) if rng.random() < 0.5 else [0]
            t.update({"state": "RUNNING", "values": None, "has_complete": False, "dt_complete": None, "has_start": True, "dt_start": "2024-02-03T04:05:06.%06d" % (1000 + i)})
            t["system_attrs"] = {"failed_trial": hist[0], "retry_history": hist}
            op["template"] = t
        add(rng.choice(names), 1, op)
        if rng.random() < 0.85:
            add(rng.choice(local), 2, {"op": "heartbeat", "trial": h})
            beating.append(h)
    readers = [n for n in names if clients[n]["kind"] != "raw"]
    for c in readers:
        if rng.random() < 0.6:
            add(c, 3, {"op": "read_check", "study": "S0", "filters": [0, 1], "full": rng.random() < 0.5})
    if beating and rng.random() < 0.4:
        # one of the workers is alive after all / finishes in time
        add(rng.choice(names), 3, {"op": "set_trial_state_values", "trial": rng.choice(beating), "state": "COMPLETE", "values": [cf(g.objective_value())]})
    sweeper = "k0"
    eff = grace if grace is not None else 2 * hb
    add(sweeper, 4, {"op": "sleep", "secs": eff + rng.choice([1, 5, 100])})
    add(sweeper, 5, {"op": "sweep", "study": "S0"})
    if len(local) > 1 and rng.random() < 0.4:
        add(rng.choice(local[1:]), 5, {"op": "sweep", "study": "S0"})
    for c in readers:
        add(c, 6, {"op": "read_check", "study": "S0", "filters": [0, 2], "full": True})
    for c_ in clients.values():
        c_["ops"].sort(key=lambda o: o.get("phase", 0))
    cfg = {"mode": "clients", "deployment": "mixed", "scenario": "heartbeat-retry", "hb": {"interval": hb, "grace": grace, "max_retry": rng.choice([None, 1, 3]), "callback_reads": rng.random() < 0.7}, "p_line": 0.0, "p_seam": rng.choice([0.2, 0.5, 0.8]), "pool": rng.choice([1, 2, 3]), "busy_timeout": 60.0}
    return {"check": ID, "seed": seed, "run": run, "cfg": cfg, "clients": clients, "faults": [], "sched": {"seed": rng.getrandbits(48)}}


def _gen_threads(seed: int, run: int, tier: str, rng: Any) -> dict:
    # the proxy's client cache is the same code over any backend: the cheap in-process
    # backends buy 20-30x more schedules per second than SQLite
    kind = rng.choice(["cached", "cached", "grpc(rdb)", "grpc(cached)", "grpc(mem)", "grpc(mem)", "grpc(mem)", "grpc(mem)", "grpc(jf-sym)", "grpc(jr)"])
    plan = c03.gen_plan(seed, run, tier)
    # same process for all tasks: threads inside one caching client; make it read-heavy
    for n, t in plan["tasks"].items():
        t["proc"] = "P0"
        extra = []
        for _ in range(rng.randint(1, 2)):
            extra.append({"op": "get_all_trials", "study": "S0", "states": rng.choice([None, ["COMPLETE"], ["RUNNING", "WAITING"]]), "deepcopy": rng.random() < 0.5})
        for e in extra:
            t["ops"].insert(rng.randint(0, len(t["ops"])), e)
        t["ops"] = t["ops"][:6]
    if rng.random() < 0.55:
        # focused scripts: readers refresh the cache while writers finish shared trials and
        # read them back at once (a late merge of an older fetch must never win)
        shared = [o["as"] for o in plan["setup"] if o["op"] == "create_new_trial" and not o.get("template")]
        nobj = len(plan["setup"][0]["directions"])
        while len(shared) < 2:
            h = "T%d" % (len([o for o in plan["setup"] if o["op"] == "create_new_trial"]))
            plan["setup"].append({"op": "create_new_trial", "study": "S0", "as": h})
            shared.append(h)
        names = sorted(plan["tasks"])
        uid = [1000]

        def val() -> list:
            uid[0] += 1
            return [cf(float(uid[0])) for _ in range(nobj)]

        for i, n in enumerate(names):
            script: list[dict] = []
            if i == 0:
                for _ in range(rng.randint(2, 3)):
                    script.append({"op": "get_all_trials", "study": "S0", "states": rng.choice([None, ["RUNNING", "WAITING"], ["COMPLETE"]]), "deepcopy": rng.random() < 0.5})
            else:
                th = shared[(i - 1) % len(shared)]
                w = rng.choice(["state", "state", "attr"])
                if w == "state":
                    script.append({"op": "set_trial_state_values", "trial": th, "state": "COMPLETE", "values": val()})
                else:
                    script.append({"op": "set_trial_user_attr", "trial": th, "key": "a", "value": "%s%d" % (n, uid[0])})
                script.append({"op": "get_all_trials", "study": "S0", "states": rng.choice([None, ["COMPLETE"], ["RUNNING", "WAITING"]]), "deepcopy": rng.random() < 0.5})
                if rng.random() < 0.6:
                    script.append({"op": "get_trial", "trial": th})
            plan["tasks"][n]["ops"] = script
    plan["check"] = ID
    plan["cfg"]["deployment"] = kind
    plan["cfg"]["mode"] = "threads"
    if kind.startswith("grpc("):
        # replies may be held up and overtake each other; at least two pool threads
        plan["cfg"]["net_delay"] = rng.choice([0.0, 0.005, 0.02])
        plan["cfg"]["net_seed"] = rng.getrandbits(20)
        plan["cfg"]["pool"] = rng.choice([2, 3, 10])
    return plan


def shrink_paths(plan: dict) -> list[tuple]:
    if plan["cfg"].get("mode") == "threads":
        return c03.shrink_paths(plan)
    return [("clients", n, "ops") for n in plan["clients"]] + [("faults",), ("sched", "table")] + ([("sql_faults",)] if "sql_faults" in plan else []) + ([("line_interrupts",)] if "line_interrupts" in plan else [])


def signature_class(sig: str) -> str:
    return "|".join(sig.split("|")[:4])


def sample_view(plan: dict, res: dict) -> dict:
    if plan["cfg"].get("mode") == "threads":
        v = c03.sample_view(plan, res)
        v["mode"] = "threads"
        return v
    return {"mode": "clients", "clients": {n: {"kind": c["kind"], "ops": [c03._short(o) for o in c["ops"]]} for n, c in plan["clients"].items()}, "faults": plan.get("faults"), "switches": res["switches"]}


def run_plan(plan: dict) -> dict:
    cfg = plan["cfg"]
    ch = common.make_chooser(plan)
    if cfg.get("mode") == "threads":
        sim = sched.Sim(ch, trace_suffixes=common.TRACE_STORAGE, max_steps=80000, uuid_salt=str(plan.get("run", 0)))
        dep = deploy.Deployment(sim, cfg["deployment"], cfg)
        try:
            return c03._run(plan, sim, ch, dep, cid=ID)
        finally:
            dep.close()
    # line events only where an asynchronous interrupt is to be placed (no pre-emption there)
    trace = ("optuna/storages/_cached_storage.py",) if plan.get("line_interrupts") else ()
    sim = sched.Sim(ch, trace_suffixes=trace, max_steps=300000, uuid_salt=str(plan.get("run", 0)))
    dep = deploy.Deployment(sim, "rdb", cfg)
    try:
        return _run_clients(plan, sim, ch, dep)
    finally:
        dep.close()


class _Inner:
    """Adapter so that a SimServer can host a backend on the shared SimDB."""

    def __init__(self, dep: deploy.Deployment, cached: bool) -> None:
        self.dep = dep
        self.cached = cached

    def _new_inner(self, proc: Any) -> Any:
        from optuna.storages import _CachedStorage

        st = self.dep.db.new_storage(proc, self.dep.cfg)
        return _CachedStorage(st) if self.cached else st


def _read_failed_types() -> tuple:
    from optuna.exceptions import StorageInternalError

    return (net.SimRpcError, StorageInternalError, KeyboardInterrupt)


READ_FAILED: tuple = ()


def _canon_list(ts: list) -> list:
    return [(t._trial_id, canon_trial(t, True)) for t in ts]


def _run_clients(plan: dict, sim: sched.Sim, ch: sched.Chooser, dep: deploy.Deployment) -> dict:
    from optuna.storages import _CachedStorage
    from optuna.trial import TrialState

    global READ_FAILED
    READ_FAILED = _read_failed_types()
    cfg = plan["cfg"]
    prefix = "%s|clients|" % ID
    env = ops.Env()
    raw = dep.db.new_storage(None, cfg, raw=True)  # the checker's own reader
    gate = sched.SimLock(sim, False, "gate")
    storages: dict[str, Any] = {}
    servers: list[net.SimServer] = []
    kinds = {n: c["kind"] for n, c in plan["clients"].items()}
    procs = {n: sim.proc("C" + n) for n in sorted(plan["clients"])}
    faults = [dict(f) for f in plan.get("faults", [])]
    counts: dict[tuple, int] = {}

    def fault(task: str, method: str, phase: str) -> bool:
        if phase == "pre":
            counts[(task, method)] = counts.get((task, method), 0) + 1
        for f in faults:
            if f["client"] != task or f["method"] != method or f["phase"] != phase or f.get("fired"):
                continue
            if "in_phase" in f:
                if cur_phase.get(task) == f["in_phase"]:
                    f["fired"] = True
                    return True
                continue
            if f["nth"] == counts.get((task, method), 0) - 1:
                f["fired"] = True
                return True
        return False

    hbkw: dict[str, Any] = {}
    if cfg.get("hb"):
        from optuna.storages import RetryFailedTrialCallback

        retry = RetryFailedTrialCallback(max_retry=cfg["hb"].get("max_retry"))

        def failed_trial_callback(study_: Any, trial_: Any) -> None:
            # what a user's callback may well do before handing over to the stock retry
            if cfg["hb"].get("callback_reads"):
                study_.get_trials(deepcopy=False)
            retry(study_, trial_)
            sim.count("failed_trial_callback")

        hbkw = {"heartbeat_interval": cfg["hb"]["interval"], "grace_period": cfg["hb"].get("grace"), "failed_trial_callback": failed_trial_callback}
    for n in sorted(plan["clients"]):
        k = kinds[n]
        if k == "cached":
            storages[n] = _CachedStorage(dep.db.new_storage(procs[n], cfg, **hbkw))
        elif k == "raw":
            storages[n] = dep.db.new_storage(procs[n], cfg, **hbkw)
        else:
            srv = net.SimServer(sim, _Inner(dep, k == "grpc-cached"), cfg)
            srv.fault = fault
            servers.append(srv)
            storages[n] = srv.new_client(procs[n])
    quiet = [0]  # > 0 while the checker's own reader is at work: no injected faults then

    class _Raw:
        """The checker's own reader, shielded from the injected faults."""

        def __getattr__(self, name: str) -> Any:
            f = getattr(raw0, name)
            if not callable(f):
                return f

            def call(*a: Any, **k: Any) -> Any:
                quiet[0] += 1
                try:
                    return f(*a, **k)
                finally:
                    quiet[0] -= 1

            return call

    raw0 = raw
    raw = _Raw()
    sql_faults = [dict(f) for f in plan.get("sql_faults", [])]
    if sql_faults:
        nsel: dict[str, int] = {}

        def sql_fault(task: Any, skind: str, word: str) -> bool:
            if task is None or skind != "sql.exec" or word != "SELECT" or quiet[0] or sim.atomic_depth:
                return False
            nsel[task.name] = nsel.get(task.name, 0) + 1
            for f in sql_faults:
                if not f.get("fired") and f["client"] == task.name and f["nth"] == nsel[task.name] - 1:
                    f["fired"] = True
                    return True
            return False

        dep.db.fault = sql_fault
    line_interrupts = [dict(f) for f in plan.get("line_interrupts", [])]
    reading: dict[str, int] = {}
    dirty: dict[str, bool] = {}
    healed: dict[str, set] = {}  # study ids fully re-read by the client since its last interrupt
    if line_interrupts:
        nline: dict[str, int] = {}

        def line_fault(task: Any) -> Any:
            if not reading.get(task.name) or quiet[0]:
                return None
            code_, line_ = sim.cur_line or (None, 0)
            if code_ is not None and linecache.getline(code_.co_filename, line_).lstrip().startswith("with "):
                # a `with` line is visited again on the way out, outside the protected range:
                # CPython never runs a signal handler there (no eval-breaker check between the
                # end of the body and the __exit__ call) - not a place a real interrupt lands
                return None
            nline[task.name] = nline.get(task.name, 0) + 1
            for f in line_interrupts:
                if not f.get("fired") and f["client"] == task.name and f["nth"] == nline[task.name] - 1:
                    f["fired"] = True
                    sim.count("interrupt_at_line_of_cached_storage")
                    # a refresh cut short may leave the cache half updated until the client's
                    # next complete get_all_trials of the study: single-trial reads in between
                    # are not judged (what must not happen is damage that never heals)
                    dirty[task.name] = True
                    healed[task.name] = set()
                    return KeyboardInterrupt()
            return None

        sim.line_fault = line_fault
    verdict: list[tuple[str, str]] = []
    observed_gone: set = set()  # (client, study id) for which the client itself got KeyError
    own_delete_failed: set = set()  # (client, study id): its own delete_study raised KeyError
    created_by: dict[int, str] = {}  # study id -> client whose create_new_study returned it last
    cur_phase: dict[str, int] = {}
    # phase barriers of scenario plans: an op of phase p starts when all ops of phases < p are done
    phase_total: dict[int, int] = {}
    phase_done: dict[int, int] = {}
    for c_ in plan["clients"].values():
        for o_ in c_["ops"]:
            if "phase" in o_:
                phase_total[o_["phase"]] = phase_total.get(o_["phase"], 0) + 1
    deleted_by: dict[str, str] = {}  # study handle -> client that deleted it
    writes_since_read: dict[str, set] = {n: set() for n in plan["clients"]}
    stats = {"reads": 0, "reads_after_foreign_write": 0}
    trace: list[str] = []

    def read_trial(name: str, st: Any, op: dict) -> None:
        tid = env.real.get(op["trial"])
        if tid is None:
            return
        if dirty.get(name):
            sim.count("single_read_not_judged_after_interrupt")
            return
        stats["reads"] += 1
        if writes_since_read[name] - {name}:
            stats["reads_after_foreign_write"] += 1
        foreign_delete = any(d != name for d in deleted_by.values())
        tag = "stale-after-foreign-delete" if foreign_delete else "stale"
        try:
            want = raw.get_trial(tid)
            werr = None
        except KeyError as e:
            want, werr = None, e
        raw.remove_session()
        try:
            got = st.get_trial(tid)
            gerr = None
        except KeyError as e:
            got, gerr = None, e
        except READ_FAILED:
            sim.count("read_failed_rpc")
            return
        if (werr is None) != (gerr is None) or (werr is None and canon_trial(got, True) != canon_trial(want, True)):
            if not verdict:
                verdict.append((prefix + "%s|%s|get_trial" % (kinds[name], tag), "%s (%s) get_trial(%s): client %r, backend %r\n  recent ops:\n    %s" % (name, kinds[name], op["trial"], gerr or canon_trial(got, True), werr or canon_trial(want, True), "\n    ".join(trace[-14:]))))

    def read_check(name: str, st: Any, sh: str, filters: Any = None, full: bool = True) -> None:
        sid = env.real.get(sh)
        if sid is None:
            return
        stats["reads"] += 1
        if writes_since_read[name] - {name}:
            stats["reads_after_foreign_write"] += 1
        writes_since_read[name] = set()
        foreign_delete = any(d != name for d in deleted_by.values())
        tag = "stale-after-foreign-delete" if foreign_delete else "stale"
        if foreign_delete and kinds[name] == "grpc-rdb" and (name, sid) in observed_gone:
            # this proxy client (over a non-caching backend) has itself been told that the
            # study id was gone: its own cache entry must have been dropped then - staleness
            # now is not the documented "no invalidation on foreign delete"
            tag = "stale-after-observed-delete"
        if foreign_delete and kinds[name] == "cached" and (name, sid) in own_delete_failed:
            # _CachedStorage.delete_study drops the client's cache entry before it asks the
            # backend: after its own (failed) attempt nothing of the old study may be left
            tag = "stale-after-own-delete-attempt"

        def bad(what: str, detail: str, tag: str = tag) -> None:
            if tag == "stale-after-foreign-delete" and what == "get_all_trials" and kinds[name] == "cached" and created_by.get(sid) == name:
                # the client created this study itself (after the foreign delete):
                # _CachedStorage.create_new_study starts the id's cache entry afresh, so the
                # trial list of the new study cannot be the documented leftover of the old one
                tag = "stale-after-own-create"
            if not verdict:
                verdict.append((prefix + "%s|%s|%s" % (kinds[name], tag, what), "%s (%s) read of study %s: %s\n  recent ops:\n    %s" % (name, kinds[name], sh, detail, "\n    ".join(trace[-14:]))))

        try:
            want_all = raw.get_all_trials(sid, deepcopy=False)
            raw_err = None
        except KeyError as e:
            want_all, raw_err = [], e
        raw.remove_session()
        flt = ops.STATE_FILTERS if filters is None else [ops.STATE_FILTERS[i % len(ops.STATE_FILTERS)] for i in filters]
        for fi, f in enumerate(flt):
            states = ops.states_arg(f)
            for dc in ((True, False) if filters is None else ((fi % 2 == 0),)):
                try:
                    got = st.get_all_trials(sid, deepcopy=dc, states=states)
                except KeyError:
                    if raw_err is None:
                        bad("get_all_trials", "client raised KeyError, backend has the study")
                        return
                    observed_gone.add((name, sid))
                    continue
                except READ_FAILED as e:
                    sim.count("read_failed_rpc")
                    continue
                if raw_err is not None:
                    bad("get_all_trials", "client returned %d trials of a study that the backend no longer has" % len(got))
                    return
                if dirty.get(name):
                    healed.setdefault(name, set()).add(sid)
                    if all(v in healed[name] for h_, v in env.real.items() if "S" in h_ and "T" not in h_):
                        dirty[name] = False
                want = [t for t in want_all if states is None or t.state in states]
                a, b = _canon_list(got), _canon_list(want)
                if a != b:
                    bad("get_all_trials", "states=%r deepcopy=%r: client numbers/states %r, backend %r; first differing trial: %r vs %r" % (f, dc, [(x[1]["number"], x[1]["state"]) for x in a], [(x[1]["number"], x[1]["state"]) for x in b], next((x for x, y in zip(a, b) if x != y), None), next((y for x, y in zip(a, b) if x != y), None)))
                    return
        if raw_err is not None or not full or (dirty.get(name) and sid not in healed.get(name, set())):
            return
        for t in want_all:
            try:
                g = st.get_trial(t._trial_id)
            except READ_FAILED:
                continue
            except KeyError:
                bad("get_trial", "client raised KeyError for trial id %d" % t._trial_id)
                return
            if (g._trial_id, canon_trial(g, True)) != (t._trial_id, canon_trial(t, True)):
                bad("get_trial", "trial id %d: client %r backend %r" % (t._trial_id, canon_trial(g, True), canon_trial(t, True)))
                return
            try:
                tid = st.get_trial_id_from_study_id_trial_number(sid, t.number)
            except READ_FAILED:
                continue
            except KeyError:
                bad("number-lookup", "client raised KeyError for number %d" % t.number)
                return
            if tid != t._trial_id:
                bad("number-lookup", "number %d -> %d, backend %d" % (t.number, tid, t._trial_id))
                return
        try:
            if st.get_study_name_from_id(sid) != raw.get_study_name_from_id(sid):
                bad("study-name", "differs")
            if [d.name for d in st.get_study_directions(sid)] != [d.name for d in raw.get_study_directions(sid)]:
                bad("study-directions", "differs")
        except READ_FAILED:
            pass
        raw.remove_session()

    def make_client(name: str, c: dict) -> Any:
        def body() -> None:
            for op in c["ops"]:
                if verdict:
                    return
                if "phase" in op:
                    ph = op["phase"]
                    sim.block_until(lambda: bool(verdict) or all(phase_done.get(q, 0) >= n_ for q, n_ in phase_total.items() if q < ph), "phase")
                    cur_phase[name] = ph
                try:
                    one_op(name, op)
                finally:
                    if "phase" in op:
                        phase_done[op["phase"]] = phase_done.get(op["phase"], 0) + 1
            st = storages[name]
            if hasattr(st, "remove_session"):
                st.remove_session()

        def one_op(name: str, op: dict) -> None:
            if True:
                sim.seam("step")
                st = storages[name]
                with gate:
                    if op["op"] == "repickle":
                        import pickle

                        if hasattr(st, "remove_session"):
                            st.remove_session()
                        with sim.atomic():
                            st2 = pickle.loads(pickle.dumps(st))
                        inner = getattr(st2, "_backend", st2)
                        dep.db.storages.append(inner)
                        storages[name] = st2
                        sim.count("repickled")
                        sim.note("repickle", name)
                        trace.append("%s(%s) repickle" % (name, kinds[name]))
                        return
                    if op["op"] == "read_check":
                        reading[name] = 1
                        try:
                            read_check(name, st, op["study"], op.get("filters"), op.get("full", True))
                        finally:
                            reading[name] = 0
                        sim.note("read", name, op["study"])
                        return
                    if op["op"] == "read_trial":
                        reading[name] = 1
                        try:
                            read_trial(name, st, op)
                        finally:
                            reading[name] = 0
                        sim.note("read_trial", name, op["trial"])
                        return
                    if op["op"] == "heartbeat":
                        tid = env.real.get(op["trial"])
                        if tid is not None and hasattr(st, "record_heartbeat"):
                            st.record_heartbeat(tid)
                            sim.count("heartbeat_recorded")
                        trace.append("%s(%s) record_heartbeat %s" % (name, kinds[name], op["trial"]))
                        sim.note("heartbeat", name, op["trial"])
                        return
                    if op["op"] == "sleep":
                        if hasattr(st, "remove_session"):
                            st.remove_session()
                        sim.sleep(float(op["secs"]))
                        return
                    if op["op"] == "sweep":
                        import optuna

                        sid = env.real.get(op["study"])
                        if sid is None or not hasattr(st, "record_heartbeat"):
                            return
                        study_ = optuna.load_study(study_name=st.get_study_name_from_id(sid), storage=st)
                        optuna.storages.fail_stale_trials(study_)
                        sim.count("sweeps")
                        for other in writes_since_read:
                            writes_since_read[other].add(name)
                        trace.append("%s(%s) fail_stale_trials" % (name, kinds[name]))
                        sim.note("sweep", name)
                        return
                    res = ops.apply_real(st, op, env)
                    if res[0] == "skip":
                        return
                    if res[0] == "ok" and op["op"] in ("create_new_study", "create_new_trial"):
                        env.real[op["as"]] = res[1][1]
                    if res[0] == "ok" and op["op"] == "create_new_study":
                        created_by[res[1][1]] = name
                    if res[0] == "ok" and op["op"] == "delete_study":
                        deleted_by[op["study"]] = name
                    if res[0] == "err" and res[1] == "KeyError" and op["op"] == "delete_study" and env.real.get(op["study"]) is not None:
                        own_delete_failed.add((name, env.real[op["study"]]))
                        sim.count("own_delete_of_deleted_study")
                    if not op["op"].startswith("get_"):
                        for other in writes_since_read:
                            writes_since_read[other].add(name)
                    trace.append("%s(%s) %s -> %s" % (name, kinds[name], c03._short(op), res[1] if res[0] == "err" else "ok"))
                    sim.note("op", name, op["op"], res[:2] if res[0] == "err" else "ok")

        return body

    tasks = [sim.spawn(procs[n], n, make_client(n, c)) for n, c in sorted(plan["clients"].items())]
    status = sim.run()
    if status != "ok":
        return common.result(sim, ch, "violation" if status == "deadlock" else "inconclusive", prefix + "deadlock", status)
    for t in tasks:
        if t.exc is not None:
            raise RuntimeError("task %s died: %r" % (t.name, t.exc)) from t.exc
    nontrivial = len(tasks) >= 2 and stats["reads_after_foreign_write"] > 0
    if verdict:
        return common.result(sim, ch, "violation", verdict[0][0], verdict[0][1], nontrivial=nontrivial)
    # final: every client reads every study once more
    seams.set_sim(sim, dep.fs)
    for n in sorted(plan["clients"]):
        for sh in sorted(h for h in env.real if "S" in h and "T" not in h):
            read_check(n, storages[n], sh)
            if verdict:
                return common.result(sim, ch, "violation", verdict[0][0], verdict[0][1] + "\n  (final read)", nontrivial=nontrivial)
    return common.result(sim, ch, "ok", nontrivial=nontrivial, extra_counters={"planned_reads": stats["reads"], "reads_after_foreign_write": stats["reads_after_foreign_write"]})
