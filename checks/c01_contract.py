"""C01 - every backend implements the one documented storage contract.

Generated sequential histories of every BaseStorage method on 11 deployments, compared
call by call with ModelStorage (return value / error class) and by full getter sweeps.
`reopen` drops the client's storage object and opens a new one on the same durable medium
(for grpc(X): a fresh client cache and/or a restarted server), `observe` reads everything
through a second, fresh object - so values really travel through JSON lines, SQL rows and
protobuf.  For grpc(X) requests are served by scheduler-chosen pool threads.
"""
from __future__ import annotations

import json
from typing import Any

from checks import common
from simkit import deploy, gen, model, ops, sched, seams

ID = "C01"
LEVEL = "exploration"
BUDGET = {"quick": 50, "thorough": 900}

DEPLOYMENTS = [
    ("mem", 1.0),
    ("rdb", 1.0),
    ("cached", 1.0),
    ("jf-sym", 1.0),
    ("jf-open", 0.6),
    ("jr", 1.0),
    ("grpc(mem)", 1.0),
    ("grpc(rdb)", 0.8),
    ("grpc(cached)", 0.8),
    ("grpc(jf-sym)", 1.0),
    ("grpc(jr)", 0.8),
]
DURABLE = {"rdb", "cached", "jf-sym", "jf-open", "jr"}

EVIDENCE = {
    "rule": "one case = one generated history (<=40 BaseStorage calls incl. reopen/observe pseudo-ops) on one drawn deployment; non-trivial = at least 8 calls were compared with the model and at least one full getter sweep ran; distinct = distinct digests of (deployment, op sequence, results).",
    "assumptions": [
        "operations about which the documented contract is silent are not issued (DESIGN.md C01): writes other than state to WAITING trials, RUNNING->RUNNING with values, COMPLETE without values, a second set_trial_param for one (trial,name), 1/True-style categorical choices",
        "fault-free by construction; concurrency and crashes are C03/C05/C08",
        "MySQL/PostgreSQL are not installed: the RDB backend runs on SQLite only",
    ],
    "components": {
        "real": "all optuna storages incl. gRPC client, cache and servicer; SQLAlchemy; sqlite3; protobuf; json; pickle",
        "stub": "journal file system (SimFS), Redis (SimRedis), gRPC transport and server thread pool (SimNet), clocks, uuid",
    },
}


def deployments() -> list[tuple[str, float]]:
    import os

    only = os.environ.get("VERIF_DEPLOYMENTS")
    return [(k, w) for k, w in DEPLOYMENTS if not only or k in only.split(",")]


def gen_plan(seed: int, run: int, tier: str) -> dict:
    rng = common.rng_for(seed, run, "work")
    kind = common.weighted(rng, deployments())
    n = rng.randint(12, 40 if tier == "quick" else 60)
    g = gen.OpGen(rng)
    inner = kind[5:-1] if kind.startswith("grpc(") else kind
    oplist: list[dict] = []
    sweep_rate = rng.choice([1.0, 0.3, 0.1])
    for i in range(n):
        r = rng.random()
        if r < 0.04 and (inner in DURABLE or kind.startswith("grpc(")):
            what = "client"
            if kind.startswith("grpc(") and inner in DURABLE and rng.random() < 0.5:
                what = rng.choice(["server", "both"])
            oplist.append({"op": "reopen", "what": what})
            continue
        if r < 0.08:
            oplist.append({"op": "observe"})
            continue
        op = g.next_op()
        if rng.random() < sweep_rate * 0.15:
            op["sweep_after"] = True
        oplist.append(op)
    cfg = {
        "deployment": kind,
        "p_seam": rng.choice([0.1, 0.5]),
        "p_line": 0.0,
        "pool": rng.choice([1, 2, 3, 10]),
        "snapshot_interval": rng.choice([2, 3, 5, 100]),
        "read_block": rng.choice([16, 64, 8192]),
        "chunked_write": rng.random() < 0.3,
    }
    return {"check": ID, "seed": seed, "run": run, "cfg": cfg, "ops": oplist, "sched": {"seed": rng.getrandbits(48)}}


def shrink_paths(plan: dict) -> list[tuple]:
    return [("ops",), ("sched", "table")]


def signature_class(sig: str) -> str:
    return "|".join(sig.split("|")[:4])


def sample_view(plan: dict, res: dict) -> dict:
    from checks.c03_linear import _short

    return {"deployment": plan["cfg"]["deployment"], "ops": [(_short(o) if "op" in o and o["op"] not in ("reopen", "observe") else json.dumps(o)) for o in plan["ops"]], "status": res["status"]}


def run_plan(plan: dict) -> dict:
    cfg = plan["cfg"]
    kind = cfg["deployment"]
    ch = common.make_chooser(plan)
    sim = sched.Sim(ch, trace_suffixes=(), max_steps=400000, uuid_salt=str(plan.get("run", 0)))
    dep = deploy.Deployment(sim, kind, cfg)
    try:
        return _run(plan, sim, ch, dep)
    finally:
        dep.close()


def _classify(op: dict, why: str) -> str:
    k = op["op"]
    short = why.split(":", 1)[1].strip() if ":" in why else why
    # keep the class stable: strip concrete values
    import re

    short = re.sub(r"\{.*", "{..}", short)
    short = re.sub(r"\[.*", "[..]", short)
    short = re.sub(r"\(.*", "(..)", short)
    short = re.sub(r"[0-9]+", "N", short)
    return "%s|%s" % (k, short[:120])


def _run(plan: dict, sim: sched.Sim, ch: sched.Chooser, dep: deploy.Deployment) -> dict:
    cfg = plan["cfg"]
    kind = cfg["deployment"]
    m = model.ModelStorage()
    env = ops.Env()
    prefix = "%s|%s|" % (ID, kind)
    client_proc = [sim.proc("C0")]
    state: dict[str, Any] = {"st": dep.client(client_proc[0]), "verdict": None, "compared": 0, "sweeps": 0, "gen": 0}
    trace: list[str] = []

    def fail(op: dict, why: str, via: str) -> None:
        if state["verdict"] is None:
            state["verdict"] = (prefix + via + "|" + _classify(op, why), "op %d %s via %s: %s\n  trace:\n    %s" % (len(trace), json.dumps(op)[:300], via, why, "\n    ".join(trace[-12:])))

    def do(st: Any, op: dict, via: str) -> bool:
        r = ops.apply_real(st, op, env)
        c = ops.apply_model(m, op, env, r)
        sim.note(op.get("op"), r[:2] if r[0] == "err" else json.dumps(r, default=str)[:300])
        if c[0] == "skip":
            return True
        state["compared"] += 1
        trace.append("%s -> %s" % (json.dumps(op)[:160], (r[1] if r[0] == "err" else json.dumps(r[1], default=str)[:100])))
        if c[0] == "diff":
            fail(op, c[1], via)
            return False
        if env.violations:
            fail(op, env.violations[0], via)
            return False
        return True

    slow = "rdb" in kind or "cached" in kind

    def sweep(st: Any, via: str, light: bool = False) -> bool:
        state["sweeps"] += 1
        studies = sorted(h for h in env.real if "S" in h)
        trials = sorted(h for h in env.real if "T" in h)
        for op in gen.sweep_ops(None, studies, trials, light=light, medium=slow):
            r = ops.apply_real(st, op, env)
            c = ops.apply_model(m, op, env, r)
            if c[0] == "diff":
                fail(op, c[1], via)
                return False
        return True

    def body() -> None:
        for op in plan["ops"]:
            if state["verdict"] is not None:
                return
            k = op["op"]
            if k == "reopen":
                what = op["what"]
                if what in ("server", "both") and dep.server is not None:
                    dep.server.crash_and_restart()
                    sim.count("server_restart")
                if what in ("client", "both"):
                    state["st"] = dep.new_client_in_task(client_proc[0])
                    sim.count("client_reopen")
                continue
            if k == "observe":
                sim.count("observe")
                obs = dep.observer()
                if not sweep(obs, "observer"):
                    return
                continue
            if ops.contract_silent(m, op, env):
                sim.count("skipped_contract_silent")
                continue
            if not do(state["st"], op, "client"):
                return
            if op.get("sweep_after"):
                # mid-history sweeps on SQLite deployments use the light getter set (cost);
                # the full set runs at every observe and at the end
                if not sweep(state["st"], "client-sweep", light=slow):
                    return
        sweep(state["st"], "client-sweep")
        if state["verdict"] is None:
            sweep(dep.observer(), "observer")

    t = sim.spawn(client_proc[0], "client", body)
    status = sim.run()
    if status != "ok":
        if t.exc is not None and not isinstance(t.exc, sched.SimKilled):
            raise t.exc
        return common.result(sim, ch, "violation" if status == "deadlock" else "inconclusive", prefix + "client|" + status, status, nontrivial=False)
    if t.exc is not None:
        raise t.exc
    nontrivial = state["compared"] >= 8 and state["sweeps"] >= 1
    if state["verdict"] is not None:
        return common.result(sim, ch, "violation", state["verdict"][0], state["verdict"][1], nontrivial=nontrivial)
    return common.result(sim, ch, "ok", nontrivial=nontrivial, extra_counters={"ops_compared": state["compared"], "sweeps": state["sweeps"]})
