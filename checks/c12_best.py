"""C12 - best_trial / best_trials are exactly the optimum of the history.

Up to three simulated workers ask / complete / prune / fail trials, add finished
templates and enqueue trials through the Study API in scheduler-chosen order on one
drawn deployment.  Objective values come from a tie- and infinity-rich lattice, studies
have 1-4 objectives with mixed directions and constraint values are absent, all
feasible or partly violated.  After every API call the calling worker compares
`best_trial`, `best_value`, `best_trials` (and the storage-level `get_best_trial`) with a
brute-force computation over `study.get_trials()`; at the end a fresh observer storage
is checked the same way.
"""
from __future__ import annotations

import json
import random
from typing import Any

from checks import common
from simkit import deploy, sched, seams

ID = "C12"
LEVEL = "exploration"
BUDGET = {"quick": 45, "thorough": 900}

# SQLite deployments cost 100-300 ms per run, everything else 5-40 ms
DEPLOYMENTS = [
    ("mem", 4.0),
    ("jf-sym", 2.5),
    ("jr", 2.5),
    ("grpc(mem)", 2.0),
    ("grpc(jf-sym)", 1.2),
    ("rdb", 0.45),
    ("cached", 0.45),
    ("grpc(rdb)", 0.3),
]

LATTICE = ["-inf", -1.0, 0.0, 0.0, 1.0, 1.0, "inf"]
CONS_OK = [-1.0, -0.5, 0.0, 0.0]
CONS_BAD = [0.5, 1.0, "inf"]
CONS_KEY = "constraints"
STUDY_NAME = "c12"

EVIDENCE = {
    "rule": "one case = one simulated execution of a generated plan: a deployment, 1-4 objective directions, a constraint mode and 1-3 worker scripts of Study API calls (ask, tell COMPLETE/PRUNED/FAIL by object or by number, add_trial of finished/WAITING/RUNNING templates, enqueue_trial) executed in scheduler-chosen order at call granularity; after every call best_trial/best_value/best_trials/storage.get_best_trial are compared with a brute-force optimum of study.get_trials(). Non-trivial = at least two COMPLETE trials existed when the run ended, at least four oracle evaluations ran and the global call order alternated between workers (some worker ran a call between two calls of another). Distinct = distinct digests of (scheduling decisions, every call and its outcome, every oracle observation).",
    "assumptions": [
        "on the SQLite-backed deployments (rdb, cached, grpc(rdb)) the oracle is not evaluated after ask/enqueue_trial calls (they cannot change the set of finished trials; a statement costs ~1 ms there); on all other deployments it runs after every call",
        "interleaving is at Study-API-call granularity: a call and the oracle evaluation after it are not pre-empted by another worker (for grpc(X) the server pool threads are still scheduler-chosen); finer interleavings of storage calls are C03's subject",
        "the documented-undefined case 'constraints recorded on some COMPLETE trials but missing on others' is not generated: a study either never records constraints or records them on every COMPLETE trial (PRUNED/FAIL trials may lack them, as with real samplers)",
        "when constraints are recorded and no COMPLETE trial is feasible the statement is silent about best_trial: ValueError and a value-optimal COMPLETE trial are both accepted",
        "objective values are drawn from {-inf,-1,0,0,1,1,+inf}; NaN is not generated (tell() turns it into FAIL, which is C02's subject)",
        "the oracle reads through the calling worker's own Study (this refreshes client caches, which is allowed: C12 is not about caches) and once more through a fresh observer storage at the end of the run",
        "MySQL/PostgreSQL are not installed: the RDB backend runs on SQLite only",
    ],
    "components": {
        "real": "optuna Study (ask/tell/add_trial/enqueue_trial/best_*), _multi_objective, _constrained_optimization, all storages used (in-memory, journal file/redis, RDB on sqlite3 via SQLAlchemy, _CachedStorage, gRPC client cache and servicer), protobuf, json",
        "stub": "OS scheduler, threading locks, clocks, uuid, journal file system (SimFS), Redis (SimRedis), gRPC transport and server pool (SimNet), SQLite busy handler",
    },
}

TOLERATED = ("ValueError", "RuntimeError", "KeyError", "UpdateFinishedTrialError")


def deployments() -> list[tuple[str, float]]:
    import os

    only = os.environ.get("VERIF_DEPLOYMENTS")
    return [(k, w) for k, w in DEPLOYMENTS if not only or k in only.split(",")]


# ---------------------------------------------------------------------- generation
def _values(rng: random.Random, nobj: int) -> list:
    return [rng.choice(LATTICE) for _ in range(nobj)]


def _cons(rng: random.Random, mode: str, finished_ok: bool) -> list | None:
    """Constraint values of one trial.  finished_ok: the trial will be COMPLETE, so in a
    constrained study it must carry constraints."""
    if mode == "none":
        return None
    if not finished_ok and rng.random() < 0.5:
        return None
    n = rng.choice([1, 1, 2, 3])
    if mode == "feasible" or rng.random() < 0.5:
        return [rng.choice(CONS_OK) for _ in range(n)]
    out = [rng.choice(CONS_OK + CONS_BAD) for _ in range(n)]
    out[rng.randrange(n)] = rng.choice(CONS_BAD)
    return out


def _script(rng: random.Random, nobj: int, mode: str, n: int) -> list[dict]:
    out: list[dict] = []
    running = 0
    while len(out) < n:
        r = rng.random()
        if r < 0.17 or (r < 0.58 and running == 0):
            out.append({"op": "ask"})
            running += 1
        elif r < 0.58:
            st = common.weighted(rng, [("COMPLETE", 6.5), ("PRUNED", 1.5), ("FAIL", 2.0)])
            op: dict = {"op": "tell", "i": rng.randrange(8), "state": st, "by": rng.choice(["trial", "trial", "number"])}
            if st == "COMPLETE":
                op["values"] = _values(rng, nobj)
            elif st == "PRUNED" and nobj == 1 and rng.random() < 0.7:
                op["report"] = rng.choice(LATTICE)
            op["cons"] = _cons(rng, mode, st == "COMPLETE")
            out.append(op)
            running -= 1
        elif r < 0.88:
            st = common.weighted(rng, [("COMPLETE", 6.0), ("PRUNED", 1.2), ("FAIL", 1.0), ("WAITING", 1.2), ("RUNNING", 0.6)])
            op = {"op": "add", "state": st}
            if st == "COMPLETE":
                op["values"] = _values(rng, nobj)
            elif st == "PRUNED" and rng.random() < 0.7:
                op["values"] = _values(rng, nobj)
            op["cons"] = _cons(rng, mode, st == "COMPLETE") if st not in ("WAITING", "RUNNING") else None
            out.append(op)
        elif r < 0.93:
            out.append({"op": "enqueue"})
        else:
            # finish any RUNNING trial of the study (possibly another worker's) by number
            st = common.weighted(rng, [("COMPLETE", 7.0), ("FAIL", 3.0)])
            op = {"op": "tell_any", "i": rng.randrange(8), "state": st}
            if st == "COMPLETE":
                op["values"] = _values(rng, nobj)
            op["cons"] = _cons(rng, mode, st == "COMPLETE")
            out.append(op)
    return out


def gen_plan(seed: int, run: int, tier: str) -> dict:
    rng = common.rng_for(seed, run, "work")
    kind = common.weighted(rng, deployments())
    nobj = rng.choice([1, 1, 1, 1, 2, 2, 3, 4])
    dirs = [rng.choice(["MINIMIZE", "MAXIMIZE"]) for _ in range(nobj)]
    mode = common.weighted(rng, [("none", 4.0), ("feasible", 1.5), ("mixed", 4.5)])
    nw = rng.choice([1, 2, 2, 2, 3, 3, 3])
    names = ["w0", "w1", "w2"][:nw]
    if kind == "mem":
        procs = {n: "P0" for n in names}
    else:
        pm = rng.choice(["threads", "procs", "procs", "mixed"])
        if pm == "threads":
            procs = {n: "P0" for n in names}
        elif pm == "procs":
            procs = {n: "P%d" % i for i, n in enumerate(names)}
        else:
            procs = {n: "P%d" % min(i, 1) for i, n in enumerate(names)}
    big = tier != "quick"
    sqlite = "rdb" in kind or "cached" in kind
    total = rng.randint(5, (16 if big else 10) if sqlite else (28 if big else 20))
    per = [max(1, total // nw + rng.randint(-1, 1)) for _ in names]
    workers = {n: {"proc": procs[n], "ops": _script(rng, nobj, mode, per[i])} for i, n in enumerate(names)}
    cfg = {
        "deployment": kind,
        "directions": dirs,
        "cons_mode": mode,
        "p_line": 0.0,
        "p_seam": rng.choice([0.35, 0.6, 0.85]),
        "pool": rng.choice([1, 2, 3]),
        "snapshot_interval": rng.choice([2, 3, 5, 100]),
        "read_block": rng.choice([64, 8192]),
        "chunked_write": False,
        "busy_timeout": 60.0,
    }
    # racy mode: the workers' calls are NOT serialised by the harness; threads/processes run
    # into each other inside the storage layer under line-level pre-emption (the in-memory
    # backend maintains its best trial incrementally - a read-compare-write that must stay
    # under the storage lock); the oracle is then evaluated on the final state only
    if not sqlite and nw >= 2 and rng.random() < 0.3:
        cfg["racy"] = True
        cfg["p_line"] = rng.choice([0.02, 0.08, 0.2])
        cfg["p_seam"] = rng.choice([0.2, 0.5])
    return {"check": ID, "seed": seed, "run": run, "cfg": cfg, "workers": workers, "sched": {"seed": rng.getrandbits(48)}}


def shrink_paths(plan: dict) -> list[tuple]:
    paths: list[tuple] = [("workers", n, "ops") for n in sorted(plan["workers"])]
    paths.append(("sched", "table"))
    return paths


def signature_class(sig: str) -> str:
    return "|".join(sig.split("|")[:4])


def _short(o: dict) -> str:
    bits = [o["op"]]
    for k in ("i", "state", "by", "values", "report", "cons"):
        if o.get(k) is not None:
            bits.append("%s=%s" % (k, json.dumps(o[k])))
    return " ".join(bits)


def sample_view(plan: dict, res: dict) -> dict:
    cfg = plan["cfg"]
    return {
        "deployment": cfg["deployment"],
        "directions": cfg["directions"],
        "constraints": cfg["cons_mode"],
        "workers": {n: {"proc": w["proc"], "ops": [_short(o) for o in w["ops"]]} for n, w in sorted(plan["workers"].items())},
        "switches": res["switches"],
        "status": res["status"],
    }


# ---------------------------------------------------------------------- oracle
def _f(x: Any) -> float:
    return float(x)


def _fl(xs: Any) -> list[float] | None:
    return None if xs is None else [float(x) for x in xs]


def _feasible(t: Any) -> bool:
    c = t.system_attrs.get(CONS_KEY)
    return c is not None and all(x <= 0.0 for x in c)


def _loss(t: Any, signs: list[float]) -> tuple:
    return tuple(s * v for s, v in zip(signs, t.values))


def _dominates(a: tuple, b: tuple) -> bool:
    return all(x <= y for x, y in zip(a, b)) and any(x < y for x, y in zip(a, b))


def _fmt_trials(trials: list) -> str:
    rows = []
    for t in trials:
        rows.append("#%d %s values=%s cons=%s" % (t.number, t.state.name, t.values, t.system_attrs.get(CONS_KEY)))
    return "; ".join(rows)


def _call(fn: Any) -> tuple:
    """('ok', value) | ('err', class name, message)."""
    try:
        return ("ok", fn())
    except sched.SimKilled:
        raise
    except Exception as e:  # noqa
        return ("err", type(e).__name__, str(e)[:200])


def oracle(study: Any, directions: list[str], via: str, sim: Any) -> tuple[str, str] | None:
    """Compare the study's answers with brute force over study.get_trials().
    Returns (kind|why, detail) of the first disagreement or None."""
    from optuna.trial import TrialState

    trials = study.get_trials(deepcopy=True)
    nobj = len(directions)
    signs = [(-1.0 if d == "MAXIMIZE" else 1.0) for d in directions]
    by_number = {t.number: t for t in trials}
    complete = [t for t in trials if t.state == TrialState.COMPLETE]
    constrained = any(CONS_KEY in t.system_attrs for t in trials)
    feasible = [t for t in complete if _feasible(t)]
    eligible = feasible if constrained else complete
    sim.count("oracle_evals")
    if constrained:
        sim.count("oracle_constrained")
        if complete and not feasible:
            sim.count("oracle_no_feasible")
    obs: list[Any] = [via, len(trials), len(complete)]

    def bad(kind: str, why: str, got: Any) -> tuple[str, str]:
        return ("%s|%s@%s" % (kind, why, via), "directions=%s constrained=%s\n  got: %s\n  history: %s" % (directions, constrained, got, _fmt_trials(trials)))

    def same_as_snapshot(t: Any) -> bool:
        s = by_number.get(t.number)
        return s is not None and s.state == t.state and s.values == t.values and s.system_attrs.get(CONS_KEY) == t.system_attrs.get(CONS_KEY)

    # ---- best_trial / best_value
    rbt = _call(lambda: study.best_trial)
    rbv = _call(lambda: study.best_value)
    obs.append(rbt[1].number if rbt[0] == "ok" else rbt[1])
    obs.append(repr(rbv[1]) if rbv[0] == "ok" else rbv[1])
    if nobj > 1:
        if not (rbt[0] == "err" and rbt[1] == "RuntimeError"):
            return bad("best_trial", "multi-objective-no-RuntimeError", rbt[:2])
        if not (rbv[0] == "err" and rbv[1] == "RuntimeError"):
            return bad("best_value", "multi-objective-no-RuntimeError", rbv[:2])
    else:
        s0 = signs[0]
        if not complete:
            if not (rbt[0] == "err" and rbt[1] == "ValueError"):
                return bad("best_trial", "no-complete-trial-no-ValueError", rbt[:2] if rbt[0] == "err" else "trial #%d" % rbt[1].number)
            if not (rbv[0] == "err" and rbv[1] == "ValueError"):
                return bad("best_value", "no-complete-trial-no-ValueError", rbv[:2])
        else:
            pool = eligible if eligible else complete
            want = min(s0 * t.values[0] for t in pool)
            unspecified = constrained and not feasible
            if rbt[0] == "err":
                if not (unspecified and rbt[1] == "ValueError"):
                    return bad("best_trial", "raised-" + rbt[1], rbt[1:])
            else:
                bt = rbt[1]
                if bt.state != TrialState.COMPLETE:
                    return bad("best_trial", "not-COMPLETE", "#%d %s" % (bt.number, bt.state.name))
                if not same_as_snapshot(bt):
                    return bad("best_trial", "not-a-trial-of-the-history", "#%d %s values=%s cons=%s" % (bt.number, bt.state.name, bt.values, bt.system_attrs.get(CONS_KEY)))
                if constrained and feasible and not _feasible(bt):
                    return bad("best_trial", "infeasible-although-feasible-exists", "#%d values=%s cons=%s" % (bt.number, bt.values, bt.system_attrs.get(CONS_KEY)))
                if s0 * bt.values[0] != want:
                    return bad("best_trial", "not-optimal", "#%d value=%r, optimum=%r" % (bt.number, bt.values[0], s0 * want))
            if rbv[0] != rbt[0]:
                return bad("best_value", "differs-from-best_trial", (rbt[:2], rbv[:2]))
            if rbv[0] == "err":
                if rbv[1] != rbt[1]:
                    return bad("best_value", "differs-from-best_trial", (rbt[:2], rbv[:2]))
            elif s0 * rbv[1] != want:
                return bad("best_value", "not-optimal", "value=%r, optimum=%r" % (rbv[1], s0 * want))
        # ---- storage-level best (by value only; constraints are a Study-level notion)
        st = study._storage
        rsb = _call(lambda: st.get_best_trial(study._study_id))
        obs.append(rsb[1].number if rsb[0] == "ok" else rsb[1])
        if not complete:
            if not (rsb[0] == "err" and rsb[1] == "ValueError"):
                return bad("storage_best", "no-complete-trial-no-ValueError", rsb[:2] if rsb[0] == "err" else "trial #%d" % rsb[1].number)
        elif rsb[0] == "err":
            return bad("storage_best", "raised-" + rsb[1], rsb[1:])
        else:
            sb = rsb[1]
            want_v = min(s0 * t.values[0] for t in complete)
            if sb.state != TrialState.COMPLETE:
                return bad("storage_best", "not-COMPLETE", "#%d %s" % (sb.number, sb.state.name))
            if not same_as_snapshot(sb):
                return bad("storage_best", "not-a-trial-of-the-history", "#%d %s values=%s" % (sb.number, sb.state.name, sb.values))
            if s0 * sb.values[0] != want_v:
                return bad("storage_best", "not-optimal", "#%d value=%r, optimum=%r" % (sb.number, sb.values[0], s0 * want_v))
    # ---- best_trials: exactly the non-dominated eligible COMPLETE trials
    rfr = _call(lambda: study.best_trials)
    if rfr[0] == "err":
        return bad("best_trials", "raised-" + rfr[1], rfr[1:])
    got_list = [t.number for t in rfr[1]]
    obs.append(sorted(got_list))
    losses = [(_loss(t, signs), t.number) for t in eligible]
    want_set = sorted(n for (l, n) in losses if not any(_dominates(l2, l) for (l2, _) in losses))
    if len(set(got_list)) != len(got_list):
        return bad("best_trials", "duplicate-trial", got_list)
    for t in rfr[1]:
        if t.state != TrialState.COMPLETE or not same_as_snapshot(t):
            return bad("best_trials", "not-a-COMPLETE-trial-of-the-history", "#%d %s values=%s" % (t.number, t.state.name, t.values))
    got_set = sorted(got_list)
    if got_set != want_set:
        missing = [n for n in want_set if n not in got_set]
        extra = [n for n in got_set if n not in want_set]
        if extra and any(not _feasible(by_number[n]) for n in extra) and constrained:
            why = "contains-infeasible"
        elif extra and missing:
            why = "wrong-set"
        elif extra:
            why = "contains-dominated"
        else:
            why = "misses-non-dominated"
        return bad("best_trials", why, "got %s, non-dominated set is %s" % (got_set, want_set))
    if len(want_set) >= 2:
        sim.count("oracle_front_ge2")
    if len(complete) >= 2 and len({_loss(t, signs) for t in complete}) < len(complete):
        sim.count("oracle_tied_points")
    sim.note("oracle", obs)
    return None


# ---------------------------------------------------------------------- execution
def run_plan(plan: dict) -> dict:
    cfg = plan["cfg"]
    ch = common.make_chooser(plan)
    sim = sched.Sim(ch, trace_suffixes=common.TRACE_STORAGE if cfg.get("racy") else (), max_steps=400000, uuid_salt=str(plan.get("run", 0)))
    dep = deploy.Deployment(sim, cfg["deployment"], cfg)
    try:
        return _run(plan, sim, ch, dep)
    finally:
        dep.close()


def _run(plan: dict, sim: sched.Sim, ch: sched.Chooser, dep: deploy.Deployment) -> dict:
    import optuna
    from optuna.trial import TrialState, create_trial

    cfg = plan["cfg"]
    kind = cfg["deployment"]
    directions = list(cfg["directions"])
    nobj = len(directions)
    prefix = "%s|%s|" % (ID, kind)
    is_grpc = kind.startswith("grpc(")
    sqlite = "rdb" in kind or "cached" in kind
    workers = sorted(plan["workers"].items())
    procs: dict[str, Any] = {}
    for n, w in workers:
        if w["proc"] not in procs:
            procs[w["proc"]] = sim.proc(w["proc"])
    storages = {pn: dep.client(p) for pn, p in procs.items()}

    def sampler() -> Any:
        return optuna.samplers.RandomSampler(seed=0)

    # setup on the harness thread through the first client
    first = storages[sorted(storages)[0]]
    optuna.create_study(storage=first, study_name=STUDY_NAME, directions=[d.lower() for d in directions], sampler=sampler())
    if hasattr(first, "remove_session"):
        first.remove_session()

    state: dict[str, Any] = {"verdict": None, "order": [], "errors": 0, "done_ops": 0}
    gate: dict[str, Any] = {"owner": None}

    def gated(name: str, fn: Any) -> None:
        """One API call + oracle evaluation, not interleaved with other workers' calls."""
        sim.seam("step")
        if cfg.get("racy"):
            fn()
            return
        sim.block_until(lambda: gate["owner"] is None, "gate")
        gate["owner"] = name
        try:
            if is_grpc:
                fn()  # the RPCs must be served by (scheduler-chosen) server pool tasks
            else:
                with sim.atomic():
                    fn()
        finally:
            gate["owner"] = None

    def set_cons(study: Any, trial_id: int, cons: Any) -> None:
        if cons is not None:
            study._storage.set_trial_system_attr(trial_id, CONS_KEY, _fl(cons))

    def apply(study: Any, own: list, op: dict) -> str:
        """Execute one op; returns a short outcome string ('skip' if nothing to act on)."""
        k = op["op"]
        if k == "ask":
            t = study.ask()
            own.append(t)
            return "ask #%d" % t.number
        if k == "tell":
            if not own:
                return "skip"
            t = own.pop(op["i"] % len(own))
            st = TrialState[op["state"]]
            if op.get("report") is not None and nobj == 1:
                t.report(_f(op["report"]), 0)
            set_cons(study, t._trial_id, op.get("cons"))
            target = t if op.get("by") != "number" else t.number
            vals = _fl(op.get("values"))
            if st == TrialState.COMPLETE:
                if vals is None or len(vals) != nobj:
                    return "skip"
                ft = study.tell(target, vals if nobj > 1 else vals[0])
            else:
                ft = study.tell(target, state=st)
            return "tell #%d %s %s" % (ft.number, ft.state.name, ft.values)
        if k == "tell_any":
            running = study.get_trials(deepcopy=False, states=(TrialState.RUNNING,))
            if not running:
                return "skip"
            ft0 = running[op["i"] % len(running)]
            st = TrialState[op["state"]]
            vals = _fl(op.get("values"))
            if st == TrialState.COMPLETE and (vals is None or len(vals) != nobj):
                return "skip"
            set_cons(study, ft0._trial_id, op.get("cons"))
            if st == TrialState.COMPLETE:
                ft = study.tell(ft0.number, vals if nobj > 1 else vals[0])
            else:
                ft = study.tell(ft0.number, state=st)
            return "tell_any #%d %s %s" % (ft.number, ft.state.name, ft.values)
        if k == "add":
            st = TrialState[op["state"]]
            vals = _fl(op.get("values"))
            if st == TrialState.COMPLETE and (vals is None or len(vals) != nobj):
                return "skip"
            if vals is not None and len(vals) != nobj:
                vals = None
            sa = {CONS_KEY: _fl(op["cons"])} if op.get("cons") is not None else {}
            study.add_trial(create_trial(state=st, values=vals, system_attrs=sa))
            return "add %s %s" % (st.name, vals)
        if k == "enqueue":
            study.enqueue_trial({})
            return "enqueue"
        raise ValueError("unknown op %r" % (k,))

    def make_worker(name: str, w: dict) -> Any:
        st = storages[w["proc"]]
        box: dict[str, Any] = {"study": None}
        own: list = []

        def open_study() -> None:
            box["study"] = optuna.load_study(study_name=STUDY_NAME, storage=st, sampler=sampler())

        def one(op: dict) -> None:
            study = box["study"]
            r = _call(lambda: apply(study, own, op))
            if r[0] == "ok" and r[1] == "skip":
                sim.count("op_skipped")
                return
            state["order"].append(name)
            state["done_ops"] += 1
            if r[0] == "err":
                if r[1] not in TOLERATED:
                    raise RuntimeError("worker %s: %s raised %s: %s" % (name, json.dumps(op), r[1], r[2]))
                state["errors"] += 1
                sim.count("op_raised_" + r[1])
                sim.note("op", name, op["op"], "raise", r[1])
            else:
                sim.count("op_" + op["op"])
                sim.note("op", name, r[1])
            if cfg.get("racy"):
                return  # concurrent calls: only the final state is judged
            if sqlite and op["op"] in ("ask", "enqueue") and r[0] == "ok":
                # SQLite deployments cost ~1 ms per statement: skip the oracle after calls
                # that cannot change the set of finished trials
                sim.count("oracle_skipped_sqlite")
                return
            v = oracle(study, directions, "client", sim)
            if v is not None and state["verdict"] is None:
                state["verdict"] = (v[0], "after %s %s -> %s\n  %s" % (name, _short(op), r[1:], v[1]))

        def body() -> None:
            gated(name, open_study)
            for op in w["ops"]:
                if state["verdict"] is not None:
                    break
                gated(name, lambda: one(op))
            s = box["study"]._storage
            if hasattr(s, "remove_session"):
                gated(name, s.remove_session)

        return body

    tasks = [sim.spawn(procs[w["proc"]], n, make_worker(n, w)) for n, w in workers]
    status = sim.run()
    if status == "stepcap":
        return common.result(sim, ch, "inconclusive", None, "step cap", nontrivial=False)
    if status == "deadlock":
        why = "; ".join("%s blocked on %s" % (t.name, t.blocked_why) for t in tasks if not t.done)
        for t in tasks:
            if t.exc is not None and not isinstance(t.exc, sched.SimKilled):
                raise RuntimeError("task %s died: %r" % (t.name, t.exc)) from t.exc
        raise RuntimeError("deadlock in a fault-free call-granularity run: " + why)
    for t in tasks:
        if t.exc is not None:
            raise RuntimeError("task %s died: %r" % (t.name, t.exc)) from t.exc

    order = state["order"]
    alternated = any(order[i] != order[i + 1] and order[i] in order[i + 2 :] for i in range(len(order) - 1))
    extra = {"api_calls": state["done_ops"], "runs_alternated": 1 if alternated else 0}

    def finish(verdict: tuple[str, str] | None, ncomplete: int) -> dict:
        nontrivial = bool(alternated and ncomplete >= 2 and sim.counters.get("oracle_evals", 0) >= 4) or bool(cfg.get("racy") and sim.switches > 0 and ncomplete >= 2)
        if verdict is not None:
            return common.result(sim, ch, "violation", prefix + verdict[0], verdict[1], nontrivial=nontrivial, extra_counters=extra)
        return common.result(sim, ch, "ok", nontrivial=nontrivial, extra_counters=extra)

    if state["verdict"] is not None:
        return finish(state["verdict"], 2)
    # final check through a fresh observer storage (harness thread, nothing else runs)
    seams.set_sim(sim, dep.fs)
    obs = dep.observer()
    ostudy = optuna.load_study(study_name=STUDY_NAME, storage=obs, sampler=sampler())
    v = oracle(ostudy, directions, "observer", sim)
    ncomplete = len(ostudy.get_trials(deepcopy=False, states=(TrialState.COMPLETE,)))
    if hasattr(ostudy._storage, "remove_session"):
        ostudy._storage.remove_session()
    if v is not None:
        return finish((v[0], "final read by a fresh observer\n  " + v[1]), ncomplete)
    return finish(None, ncomplete)
