"""C06 - journal replay is deterministic: all workers converge on the same state.

2-4 workers (own JournalStorage objects, some with two threads) on one journal backend
(file with either lock, or Redis with snapshots at a randomised small interval) issue
accepted and deliberately rejected operations under line-level pre-emption.  Afterwards:
the recorded history must be linearizable against the contract model (a rejected
operation raises its documented error at the issuer and nowhere else), and the
materialised state of every replayer - each live worker, a fresh opener (snapshot + tail
on Redis), offline replays of the same log under seeded batch splits with a foreign
worker id, and an offline replay with the rejected records removed - must be identical
and equal to the contract model folded over the log records in log order.
"""
from __future__ import annotations

import json
import random
from typing import Any

from checks import c03_linear as c03
from checks import common
from simkit import deploy, gen, model, ops, sched, seams
from simkit.model import ModelError, cf

ID = "C06"
LEVEL = "exploration"
BUDGET = {"quick": 45, "thorough": 900}
DEPLOYMENTS = [("jf-sym", 2.0), ("jf-open", 1.5), ("jr", 3.0), ("jr-cluster", 1.0)]

EVIDENCE = {
    "rule": "one case = one simulated execution (2-4 tasks on 2-3 JournalStorage objects over one backend, generated scripts with accepted and rejected operations) followed by 4+ replays of the resulting log; non-trivial = at least one context switch inside a storage call and at least one rejected record in the log; distinct = distinct event-order digests.",
    "assumptions": [
        "SimFS / SimRedis stand in for the file system and Redis (each command atomic)",
        "replayers compared: live workers after a final sync, fresh opener, offline JournalStorageReplayResult under 3 seeded batch splits, offline replay without rejected records",
        "worker-local fields (id prefix, owned-trial map, last created id) are excluded from state equality, as the property says",
    ],
    "components": {"real": "JournalStorage, JournalStorageReplayResult, JournalFileBackend + locks, JournalRedisBackend, pickle snapshots", "stub": "file system, Redis server, clocks, uuid, thread identity, OS scheduler"},
}


def deployments() -> list[tuple[str, float]]:
    import os

    only = os.environ.get("VERIF_DEPLOYMENTS")
    return [(k, w) for k, w in DEPLOYMENTS if not only or k in only.split(",")]


def gen_plan(seed: int, run: int, tier: str) -> dict:
    rng = common.rng_for(seed, run, "work")
    kind = common.weighted(rng, deployments())
    ntasks = rng.choice([2, 3, 3, 4])
    names = ["a", "b", "c", "d"][:ntasks]
    nprocs = rng.choice([2, 2, 3]) if ntasks > 2 else 2
    procs = {n: "P%d" % (i % nprocs) for i, n in enumerate(names)}
    g = gen.OpGen(rng, client="", deletes=False)
    setup: list[dict] = []
    nobj = rng.choice([1, 1, 2])
    dirs = [rng.choice(["MINIMIZE", "MAXIMIZE"]) for _ in range(nobj)]
    setup.append({"op": "create_new_study", "directions": dirs, "name": "shared", "as": "S0"})
    shared_running: list[str] = []
    shared_waiting: list[str] = []
    shared_finished: list[str] = []
    for i in range(rng.randint(1, 4)):
        h = "T%d" % i
        r = rng.random()
        if r < 0.45:
            setup.append({"op": "create_new_trial", "study": "S0", "as": h})
            shared_running.append(h)
        else:
            t = g.template(nobj)
            if r < 0.75:
                t.update({"state": "WAITING", "values": None, "has_start": False, "has_complete": False, "dt_start": None, "dt_complete": None})
                shared_waiting.append(h)
            else:
                t["state"] = "FAIL"
                t.update({"values": None, "has_start": True, "has_complete": True, "dt_start": "2024-02-03T04:05:06.000007", "dt_complete": "2024-02-03T05:05:06.000008"})
                shared_finished.append(h)
            setup.append({"op": "create_new_trial", "study": "S0", "as": h, "template": t})
    used_params: set = set()
    tasks: dict[str, dict] = {}
    budget = 14
    for n in names:
        k = rng.randint(2, max(2, min(5, budget - 2 * (len(names) - len(tasks) - 1))))
        budget -= k
        script = c03._task_script(rng, g, n, nobj, shared_running, shared_waiting, used_params, k)
        # rejected operations on purpose: writes to a finished trial, unknown ids, duplicate study
        for i in range(len(script)):
            if rng.random() < 0.25:
                script[i] = _rejected_op(rng, g, n, shared_finished, i)
        tasks[n] = {"proc": procs[n], "ops": script}
    cfg = {
        "deployment": kind,
        "p_line": rng.choice([0.01, 0.03, 0.1]),
        "p_seam": rng.choice([0.1, 0.3, 0.6]),
        "read_block": rng.choice([16, 64, 512, 8192]),
        "chunked_write": rng.random() < 0.4,
        "grace_period": 30,
        "snapshot_interval": rng.choice([2, 2, 3, 5]),
        "split_seed": rng.getrandbits(30),
        "pickled_clients": rng.random() < 0.3,
        "redis_stalls": ([{"nth": rng.randint(0, 8), "dur": rng.choice([0.5, 15.0, 40.0])} for _ in range(rng.randint(1, 2))] if "jr" in kind and rng.random() < 0.35 else []),
    }
    return {"check": ID, "seed": seed, "run": run, "cfg": cfg, "setup": setup, "tasks": tasks, "sched": {"seed": rng.getrandbits(48)}}


def _rejected_op(rng: random.Random, g: gen.OpGen, me: str, finished: list[str], i: int) -> dict:
    r = rng.random()
    if finished and r < 0.45:
        th = rng.choice(finished)
        k = rng.choice(["set_trial_user_attr", "set_trial_system_attr", "set_trial_intermediate_value", "set_trial_state_values", "set_trial_param"])
        if k == "set_trial_intermediate_value":
            return {"op": k, "trial": th, "step": 1, "value": cf(1.0)}
        if k == "set_trial_state_values":
            return {"op": k, "trial": th, "state": rng.choice(["RUNNING", "COMPLETE"]), "values": None if rng.random() < 0.5 else None}
        if k == "set_trial_param":
            return {"op": k, "trial": th, "name": "rej%s%d" % (me, i), "dist": gen.DISTS["x"], "value": cf(0.5)}
        return {"op": k, "trial": th, "key": "a", "value": "%s%d" % (me, g.uniq())}
    if r < 0.65:
        return {"op": rng.choice(["set_trial_user_attr", "get_trial", "set_trial_state_values"]), "trial": "T?", "key": "a", "value": 1, "state": "FAIL", "values": None}
    if r < 0.8:
        return {"op": rng.choice(["set_study_user_attr", "create_new_trial", "delete_study"]), "study": "S?", "key": "a", "value": 1, "as": "%sX%d" % (me, i)}
    return {"op": "create_new_study", "directions": ["MINIMIZE"], "name": "shared", "as": "%sS9%d" % (me, i)}


shrink_paths = c03.shrink_paths
sample_view = c03.sample_view


def signature_class(sig: str) -> str:
    return "|".join(sig.split("|")[:4])


def run_plan(plan: dict) -> dict:
    cfg = plan["cfg"]
    kind = cfg["deployment"]
    ch = common.make_chooser(plan)
    sim = sched.Sim(ch, trace_suffixes=("optuna/storages/journal/_storage.py", "optuna/storages/journal/_file.py", "optuna/storages/journal/_redis.py"), max_steps=80000, uuid_salt=str(plan.get("run", 0)))
    dep = deploy.Deployment(sim, kind, cfg)
    try:
        # a COMPLETE without values is contract-silent: _rejected_op only uses it on finished trials
        return c03._run(plan, sim, ch, dep, cid=ID, post=_post)
    finally:
        dep.close()


# ---------------------------------------------------------------------- replay comparisons
def dump(rr: Any, with_cursor: bool = True) -> str:
    from simkit.model import canon_trial

    d = {
        "studies": {str(sid): [s.study_name, [x.name for x in s.directions], cf(s.user_attrs), cf(s.system_attrs)] for sid, s in rr._studies.items()},
        "trials": {str(tid): [t._trial_id, canon_trial(t, True)] for tid, t in rr._trials.items()},
        "s2t": {str(k): list(v) for k, v in rr._study_id_to_trial_ids.items()},
        "t2s": {str(k): v for k, v in rr._trial_id_to_study_id.items()},
        "next_study_id": rr._next_study_id,
    }
    if with_cursor:
        d["n"] = rr.log_number_read
    return json.dumps(d, sort_keys=True)


def fold(records: list[dict]) -> tuple[model.ModelStorage, list[int]]:
    """The contract model folded over journal records in log order (rejected = no-op)."""
    from optuna.distributions import json_to_distribution
    from optuna.storages.journal._storage import JournalOperation as J
    from optuna.trial import TrialState

    m = model.ModelStorage()
    rejected: list[int] = []
    for i, r in enumerate(records):
        op = r["op_code"]
        try:
            if op == J.CREATE_STUDY:
                m.create_new_study([("MINIMIZE" if d == 1 else "MAXIMIZE" if d == 2 else "NOT_SET") for d in r["directions"]], r["study_name"])
            elif op == J.DELETE_STUDY:
                m.delete_study(r["study_id"])
            elif op == J.SET_STUDY_USER_ATTR:
                ((k, v),) = r["user_attr"].items()
                m.set_study_user_attr(r["study_id"], k, v)
            elif op == J.SET_STUDY_SYSTEM_ATTR:
                ((k, v),) = r["system_attr"].items()
                m.set_study_system_attr(r["study_id"], k, v)
            elif op == J.CREATE_TRIAL:
                if "state" in r:
                    dists = r.get("distributions", {})
                    params = {k: cf(json_to_distribution(dists[k]).to_external_repr(v)) for k, v in r.get("params", {}).items()}
                    vals = r.get("values")
                    if vals is None and r.get("value") is not None:
                        vals = [r["value"]]
                    st = TrialState(r["state"]).name
                    t = {
                        "state": st,
                        "values": None if vals is None else [cf(float(v)) for v in vals],
                        "params": params,
                        "dists": {k: _norm_dist(v) for k, v in dists.items()},
                        "user_attrs": {k: cf(v) for k, v in r.get("user_attrs", {}).items()},
                        "system_attrs": {k: cf(v) for k, v in r.get("system_attrs", {}).items()},
                        "intermediate": {str(k): cf(float(v)) for k, v in r.get("intermediate_values", {}).items()},
                        "has_start": r.get("datetime_start") is not None,
                        "has_complete": "datetime_complete" in r,
                        "dt_start": r.get("datetime_start"),
                        "dt_complete": r.get("datetime_complete"),
                    }
                    m.create_new_trial(r["study_id"], t)
                else:
                    m.create_new_trial(r["study_id"], None)
                    m.trials[m.next_tid - 1]["dt_start"] = r.get("datetime_start")
            elif op == J.SET_TRIAL_PARAM:
                d = json_to_distribution(r["distribution"])
                dj = _norm_dist(r["distribution"])
                m.set_trial_param(r["trial_id"], r["param_name"], d.to_external_repr(r["param_value_internal"]), dj, ops.compat_key(dj))
            elif op == J.SET_TRIAL_STATE_VALUES:
                st = TrialState(r["state"]).name
                if m.set_trial_state_values(r["trial_id"], st, r["values"]):
                    t = m.trials[r["trial_id"]]
                    if st == "RUNNING":
                        t["dt_start"] = r.get("datetime_start")
                    if st in model.FINISHED:
                        t["dt_complete"] = r.get("datetime_complete")
            elif op == J.SET_TRIAL_INTERMEDIATE_VALUE:
                m.set_trial_intermediate_value(r["trial_id"], r["step"], r["intermediate_value"])
            elif op == J.SET_TRIAL_USER_ATTR:
                ((k, v),) = r["user_attr"].items()
                m.set_trial_user_attr(r["trial_id"], k, v)
            elif op == J.SET_TRIAL_SYSTEM_ATTR:
                ((k, v),) = r["system_attr"].items()
                m.set_trial_system_attr(r["trial_id"], k, v)
        except ModelError:
            rejected.append(i)
    return m, rejected


def _norm_dist(dj: str) -> str:
    from optuna.distributions import distribution_to_json, json_to_distribution

    return distribution_to_json(json_to_distribution(dj))


def model_dump(m: model.ModelStorage) -> dict:
    return {
        "studies": {str(sid): [s["name"], s["directions"], cf(s["user_attrs"]), cf(s["system_attrs"]), list(s["trials"])] for sid, s in m.studies.items()},
        "trials": {str(tid): m.view(tid) for tid in m.trials},
    }


def replayer_as_model_dump(rr: Any) -> dict:
    from simkit.model import canon_trial

    live = set()
    out: dict = {"studies": {}, "trials": {}}
    for sid, s in rr._studies.items():
        tids = list(rr._study_id_to_trial_ids.get(sid, []))
        live.update(tids)
        out["studies"][str(sid)] = [s.study_name, [x.name for x in s.directions], cf(s.user_attrs), cf(s.system_attrs), tids]
    for tid in sorted(live):
        ct = canon_trial(rr._trials[tid], True)
        out["trials"][str(tid)] = ct
    return out


def _post(ctx: dict) -> Any:
    from optuna.storages.journal._storage import JournalStorageReplayResult

    sim, ch, dep, prefix = ctx["sim"], ctx["ch"], ctx["dep"], ctx["prefix"]
    seams.set_sim(sim, dep.fs)
    cfg = dep.cfg
    dumps: list[tuple[str, str]] = []
    try:
        # the log itself, read by a fresh backend object
        fresh = dep.observer()
        records = fresh._backend.read_logs(0)
        # A. live workers after a final sync
        for pn, st in sorted(ctx["storages"].items()):
            st.get_all_studies()
            dumps.append(("live:" + pn, dump(st._replay_result)))
        # B. fresh opener (Redis: snapshot + tail when a snapshot exists)
        fresh.get_all_studies()
        dumps.append(("fresh", dump(fresh._replay_result)))
    except Exception as e:  # noqa
        return common.result(sim, ch, "violation", prefix + "replayer-raised|" + type(e).__name__, "a worker's sync / a fresh opener raised %r" % (e,))
    m, rejected = fold(records)
    if dep.redis is not None and dep.redis.data.get("p:snapshot") is not None:
        sim.count("probe.snapshot_restored")
    # C. offline replays under seeded batch splits, foreign worker id
    rng = random.Random(cfg.get("split_seed", 1))
    by_cursor: dict[int, tuple[str, str]] = {}
    for k in range(3):
        rr = JournalStorageReplayResult("foreign-%d-" % k)
        i = 0
        while i < len(records):
            n = 1 if k == 0 else rng.choice([1, 2, 3, 5, len(records)])
            try:
                rr.apply_logs(records[i : i + n])
            except Exception as e:  # noqa
                return common.result(sim, ch, "violation", prefix + "non-issuer-raised|" + type(e).__name__, "offline replay with a foreign worker id raised %r in batch [%d:%d] (record %r)" % (e, i, i + n, records[rr.log_number_read - 1] if rr.log_number_read else None))
            i += n
            d = dump(rr)
            prev = by_cursor.get(rr.log_number_read)
            if prev is not None and prev[1] != d:
                return common.result(sim, ch, "violation", prefix + "prefix-state-differs", "two replays of the first %d records differ (%s vs split %d)\n%s\n%s" % (rr.log_number_read, prev[0], k, prev[1][:1500], d[:1500]))
            by_cursor[rr.log_number_read] = ("split %d" % k, d)
        dumps.append(("offline-split-%d" % k, dump(rr)))
    ref = dumps[0]
    for name, d in dumps[1:]:
        if d != ref[1]:
            return common.result(sim, ch, "violation", prefix + "replayers-differ", "%s and %s materialise different states from the same %d records\n%s\n%s" % (ref[0], name, len(records), ref[1][:2000], d[:2000]))
    # D. the log without its rejected records gives the same state
    if rejected:
        sim.count("probe.rejected_records", len(rejected))
        keep = [r for i, r in enumerate(records) if i not in set(rejected)]
        rr = JournalStorageReplayResult("foreign-x-")
        try:
            rr.apply_logs(keep)
        except Exception as e:  # noqa
            return common.result(sim, ch, "violation", prefix + "non-issuer-raised|" + type(e).__name__, "replay without the rejected records raised %r" % (e,))
        if dump(rr, False) != dump(fresh._replay_result, False):
            return common.result(sim, ch, "violation", prefix + "rejected-record-changed-state", "replaying the log without the %d rejected records %r gives another state" % (len(rejected), rejected))
    # E. equal to the contract model folded over the records
    got = replayer_as_model_dump(fresh._replay_result)
    want = model_dump(m)
    if set(got["studies"]) != set(want["studies"]) or set(got["trials"]) != set(want["trials"]):
        return common.result(sim, ch, "violation", prefix + "fold-differs|ids", "replayed studies/trials %r/%r, model %r/%r" % (sorted(got["studies"]), sorted(got["trials"]), sorted(want["studies"]), sorted(want["trials"])))
    for sid in want["studies"]:
        if got["studies"][sid] != want["studies"][sid]:
            return common.result(sim, ch, "violation", prefix + "fold-differs|study", "study %s: replay %r, model %r" % (sid, got["studies"][sid], want["studies"][sid]))
    for tid in want["trials"]:
        if not ops._trial_matches(got["trials"][tid], want["trials"][tid]):
            return common.result(sim, ch, "violation", prefix + "fold-differs|trial", "trial %s: replay %r, model %r" % (tid, got["trials"][tid], want["trials"][tid]))
    nontrivial = sim.switches > 0 and bool(rejected)
    return common.result(sim, ch, "ok", nontrivial=nontrivial, extra_counters={"records": len(records), "history_ops": len(ctx["history"])})
