"""C05 - acknowledged writes survive a crash; an interrupted write is all-or-nothing.

2-3 simulated processes share one journal file (SimFS, either lock class) or one SQLite
database (rdb / cached).  The fault stream kills a victim (kill -9: no finally, no flush)
*before a chosen system call* of a chosen storage call - lock create, open, each write
chunk, fsync, rename, unlink, stat, read; every SQL statement and every commit - or between
two chunks of the record write with the cut at a chosen byte offset (torn record).  Up to
two crashes per run (the second victim may die during the stale-lock takeover).  Survivors
go on, a late opener joins after the crash.

In the grpc(...) deployments the writer that dies is the *proxy server process*: it is
killed at the chosen system call / SQL statement while serving the victim client's call,
every request in flight fails UNAVAILABLE (ambiguous), a supervisor restarts the server
after a delay (stale journal lock of the dead server included), clients whose connection is
refused wait and re-send; client-side caches of the proxies live through the restart.

Oracle: the history of all acknowledged calls, the interrupted call as an *ambiguous*
operation (wholly applied or wholly absent, nothing else), the survivors' later calls and
the final reads of every survivor and of a fresh opener must be linearizable against the
contract model; no survivor call raises anything undocumented; every survivor call
completes (bounded liveness: <= crashes x (grace period + 1) + 5 simulated seconds).
"""
from __future__ import annotations

import json
import random
from typing import Any

from checks import c03_linear as c03
from checks import common
from simkit import deploy, gen, linearize, model, ops, sched, seams
from simkit.model import cf

ID = "C05"
LEVEL = "fault_enumeration"
BUDGET = {"quick": 50, "thorough": 900}
DEPLOYMENTS = [("jf-sym", 3.0), ("jf-open", 3.0), ("rdb", 1.0), ("cached", 1.0), ("grpc(jf-sym)", 1.0), ("grpc(jf-open)", 0.7), ("grpc(rdb)", 0.5), ("grpc(cached)", 0.3)]
FS_KINDS = ["fs.symlink", "fs.open_excl", "fs.open", "fs.write", "fs.fsync", "fs.rename", "fs.unlink", "fs.stat", "fs.read", "fs.exists", "fs.lseek", "fs.truncate"]
SQL_KINDS = ["sql.exec", "sql.commit"]

EVIDENCE = {
    "rule": "one case = one simulated execution with 1-2 injected process crashes (victim, storage call, syscall kind and occurrence, optional tear offset) placed by stratified seeded sampling, followed by survivor and late-opener continuations; in the grpc(...) deployments the process that dies is the proxy server (while serving the victim's call), restarted by a supervisor after 0-4 s; non-trivial = a crash actually fired inside a storage call; distinct = distinct (event-order digest). The per-kind fired counters are in faults_and_probes_fired (crash@<kind>, torn_write@<class>).",
    "assumptions": [
        "process death, not power loss: bytes already handed to write() stay, un-flushed buffers vanish, SQLite connections of the victim are rolled back (what the next opener's hot-journal recovery does)",
        "a killed process's remaining Python unwinding cannot touch shared state: every seam call of a zombie raises without effect",
        "stratified sampling of (call, syscall kind, occurrence, cut offset), not exhaustive enumeration; continuation scripts are sampled",
        "MySQL/PostgreSQL not installed; journal Redis backend not covered by the property",
    ],
    "components": {"real": "JournalStorage + JournalFileBackend + both lock classes, RDBStorage, _CachedStorage, SQLAlchemy, sqlite3 engine; GrpcStorageProxy + its client cache, generated stub, OptunaStorageProxyService and protobuf conversion in the grpc(...) deployments", "stub": "file system (SimFS), process death, clocks, uuid, SQLite busy handler, OS scheduler; gRPC transport and server thread pool (SimNet), process supervisor"},
}


def deployments() -> list[tuple[str, float]]:
    import os

    only = os.environ.get("VERIF_DEPLOYMENTS")
    return [(k, w) for k, w in DEPLOYMENTS if not only or k in only.split(",")]


def gen_plan(seed: int, run: int, tier: str) -> dict:
    rng = common.rng_for(seed, run, "work")
    frng = common.rng_for(seed, run, "fault")
    kind = common.weighted(rng, deployments())
    journal = "jf" in kind
    names = ["a", "b", "c"][: rng.choice([2, 2, 3])]
    g = gen.OpGen(rng, client="", deletes=False)
    nobj = 1
    setup: list[dict] = [{"op": "create_new_study", "directions": [rng.choice(["MINIMIZE", "MAXIMIZE"])], "name": "shared", "as": "S0"}]
    shared_running: list[str] = []
    shared_waiting: list[str] = []
    for i in range(rng.randint(1, 3)):
        h = "T%d" % i
        if rng.random() < 0.6:
            setup.append({"op": "create_new_trial", "study": "S0", "as": h})
            shared_running.append(h)
        else:
            t = g.template(nobj)
            t.update({"state": "WAITING", "values": None, "has_start": False, "has_complete": False, "dt_start": None, "dt_complete": None})
            setup.append({"op": "create_new_trial", "study": "S0", "as": h, "template": t})
            shared_waiting.append(h)
    used_params: set = set()
    tasks: dict[str, dict] = {}
    for i, n in enumerate(names):
        k = rng.randint(2, 4) if tier == "quick" else rng.randint(2, 5)
        tasks[n] = {"proc": "P%d" % i, "ops": [o for o in c03._task_script(rng, g, n, nobj, shared_running, shared_waiting, used_params, k)]}
    # incompatible distributions raced by two tasks are C03's business, not a crash matter
    def _good(ops_: list[dict]) -> list[dict]:
        for o in ops_:
            if o["op"] == "set_trial_param" and o["dist"] != gen.DISTS[o["name"]]:
                o["dist"] = gen.DISTS[o["name"]]
                o["value"] = cf(gen.sample_value(rng, o["dist"]))
        return ops_

    for n in tasks:
        _good(tasks[n]["ops"])
    # a late opener: joins after the (first) crash with a fresh storage object
    tasks["late"] = {"proc": "PL", "late": True, "ops": _good(c03._task_script(rng, g, "late", nobj, shared_running, shared_waiting, used_params, rng.randint(1, 3)))}
    # faults
    faults = []
    big_records = False
    victims = rng.sample(names, 1 if rng.random() < 0.75 or len(names) < 3 else 2)
    for v in victims:
        nops = len(tasks[v]["ops"])
        oi = frng.randrange(nops)
        # prefer calls that write (3 of 4 faults): a getter only opens, stats and reads
        writers = [i for i, o in enumerate(tasks[v]["ops"]) if not o["op"].startswith("get_")]
        if writers and frng.random() < 0.75:
            oi = frng.choice(writers)
        is_getter = tasks[v]["ops"][oi]["op"].startswith("get_")
        if journal:
            kinds = ["fs.open", "fs.stat", "fs.read", "fs.read"] if is_getter else ["fs.symlink", "fs.open_excl", "fs.open", "fs.lseek", "fs.read", "fs.write", "fs.fsync", "fs.rename", "fs.unlink", "fs.stat", "fs.open", "fs.read", "fs.truncate"]
        else:
            kinds = SQL_KINDS
        fk = frng.choice(kinds)
        f: dict[str, Any] = {"victim": v, "op_index": oi, "kind": fk, "nth": frng.choice([0, 0, 0, 1, 1, 2, 3, 5, 8, 13]) if not journal else frng.choice([0, 0, 0, 0, 1, 1, 2])}
        if not journal and not kind.startswith("grpc(") and frng.random() < 0.3:
            # not a death: a KeyboardInterrupt (Ctrl-C, notebook interrupt) lands in the middle
            # of the storage call; the process lives on and keeps using its storage object
            f["mode"] = "interrupt"
        if fk in ("fs.symlink", "fs.open_excl"):
            # the victim uses one lock class; make the kind match it later (run time knows)
            f["kind"] = "fs.lock_create"
        if journal and not is_getter and (fk == "fs.write" or frng.random() < 0.35):
            f["kind"] = "fs.write"
            f["nth"] = 0
            f["tear"] = frng.choice(["0", "1", "2", "mid", "last", "rand", "rand", "utf8"])
            f["tear_arg"] = frng.randrange(1 << 20)
        faults.append(f)
        # records longer than one I/O block: the repair of a torn tail scans backwards in
        # 4096-byte blocks, so the torn record itself must sometimes be longer than that
        if journal and "tear" in f and frng.random() < 0.5:
            big = "%s-" % v + "L" * frng.choice([4090, 4200, 6000, 9000, 13000])
            tgt = tasks[v]["ops"][f["op_index"]]
            tasks[v]["ops"][f["op_index"]] = {"op": "set_study_user_attr", "study": "S0", "key": "big" + v, "value": big}
            f["tear"] = frng.choice(["rand", "rand", "last", "mid", "over4k"])
            big_records = True
    cfg = {
        "deployment": kind,
        "p_line": rng.choice([0.0, 0.01, 0.05]),
        "p_seam": rng.choice([0.1, 0.3, 0.6]),
        "read_block": rng.choice([16, 64, 512, 8192]),
        "chunked_write": False,
        "grace_period": rng.choice([3, 5, 10, 30]),
        "busy_timeout": 60.0,
    }
    if kind.startswith("grpc("):
        cfg["pool"] = rng.choice([1, 2, 4])
        cfg["restart_delay"] = rng.choice([0.0, 0.5, 4.0])
    if big_records:
        cfg["read_block"] = rng.choice([512, 8192])
    return {"check": ID, "seed": seed, "run": run, "cfg": cfg, "setup": setup, "tasks": tasks, "faults": faults, "sched": {"seed": rng.getrandbits(48)}}


def shrink_paths(plan: dict) -> list[tuple]:
    return [("tasks", n, "ops") for n in plan["tasks"]] + [("setup",), ("faults",), ("sched", "table")]


def signature_class(sig: str) -> str:
    return "|".join(sig.split("|")[:3])


def sample_view(plan: dict, res: dict) -> dict:
    v = c03.sample_view(plan, res)
    v["faults"] = plan["faults"]
    return v


DOCUMENTED = c03.DOCUMENTED


def run_plan(plan: dict) -> dict:
    cfg = plan["cfg"]
    kind = cfg["deployment"]
    ch = common.make_chooser(plan)
    sim = sched.Sim(ch, trace_suffixes=common.TRACE_STORAGE if cfg.get("p_line", 0) > 0 else (), max_steps=120000, uuid_salt=str(plan.get("run", 0)))
    dep = deploy.Deployment(sim, kind, cfg)
    try:
        return _run(plan, sim, ch, dep)
    finally:
        dep.close()


def _tear_cut(f: dict, n: int, data_hint: bytes | None = None) -> int:
    t = f.get("tear")
    if t == "0":
        return 0
    if t == "1":
        return min(1, n - 1)
    if t == "2":
        return min(2, n - 1)
    if t == "mid":
        return n // 2
    if t == "last":
        return n - 1
    if t == "over4k":
        return min(n - 1, 4097 + f.get("tear_arg", 0) % max(1, n - 4097)) if n > 4200 else n // 2
    return f.get("tear_arg", 0) % n if n > 0 else 0


def _run(plan: dict, sim: sched.Sim, ch: sched.Chooser, dep: deploy.Deployment) -> dict:
    cfg = plan["cfg"]
    kind = cfg["deployment"]
    journal = "jf" in kind
    proxied = dep.server is not None
    m = model.ModelStorage()
    env = linearize.EnvState()
    prefix = "%s|%s|" % (ID, kind)
    procs: dict[str, Any] = {}
    for n, t in sorted(plan["tasks"].items()):
        procs[t["proc"]] = sim.proc(t["proc"])
    boot = sim.proc("BOOT")
    first = dep.client(boot)
    for op in plan["setup"]:
        r = ops.apply_real(first, op, env)
        c = ops.apply_model(m, op, env, r)
        if c[0] == "diff":
            return common.result(sim, ch, "violation", prefix + "setup-diff", c[1], nontrivial=False)
    if "S0" not in env.real:
        return common.result(sim, ch, "ok", nontrivial=False)
    if hasattr(first, "remove_session"):
        first.remove_session()
    history: list[dict] = []
    cur_op: dict[str, int] = {}
    seen_kind: dict[tuple, int] = {}
    crashes: list[dict] = []
    interrupts: list[dict] = []
    verdict: list[tuple[str, str]] = []
    faults = [dict(f) for f in plan.get("faults", []) if f.get("victim") in plan["tasks"]]
    durations: list[tuple[str, float, int]] = []

    def fault_hook(task: Any, skind: str, detail: str) -> None:
        name = task.name
        if proxied:
            # the server process is the writer that dies, while it serves the victim's call
            serving = getattr(task, "serving", None)
            if serving is None or task.proc is not dep.server.proc:
                return
            name = serving[0]
        if name not in cur_op:
            return
        for f in faults:
            if f.get("fired") or f["victim"] != name or f["op_index"] != cur_op[name]:
                continue
            if f["kind"] != skind and not (f["kind"] == "fs.lock_create" and skind in ("fs.symlink", "fs.open_excl")):
                continue
            if "tear" in f:
                # crash before the second chunk of the torn write
                if "#1/2@" not in detail:
                    continue
            else:
                key = (name, cur_op[name], skind)
                seen_kind[key] = seen_kind.get(key, 0) + 1
                if seen_kind[key] - 1 != f["nth"]:
                    continue
            f["fired"] = True
            if f.get("mode") == "interrupt" and not proxied:
                interrupts.append({"victim": name, "at": skind, "detail": detail, "t": sim.now})
                sim.count("interrupt@" + skind)
                raise KeyboardInterrupt()
            crashes.append({"victim": name, "at": skind, "detail": detail, "t": sim.now})
            sim.count("crash@" + skind)
            if "tear" in f:
                sim.count("torn_write@" + f["tear"])
            if proxied:
                dep.server.crash()
            else:
                sim.crash(task.proc)
            return

    sim.fault_hook = fault_hook
    if dep.fs is not None:

        def chunker(task: Any, n: int) -> list[int]:
            tname = task.name if task is not None else None
            if proxied and task is not None:
                tname = (getattr(task, "serving", None) or (None,))[0]
            if tname is None or tname not in cur_op:
                return [n]
            for f in faults:
                if "tear" in f and not f.get("fired") and f["victim"] == tname and f["op_index"] == cur_op[tname] and n > 1:
                    cut = _tear_cut(f, n)
                    return [cut, n - cut]
            return [n]

        dep.fs.chunker = chunker

    # busy-spin detector: a waiter that hammers the lock path without ever sleeping makes no
    # progress in simulated time; the step cap alone cannot tell that from a long honest run
    spin: dict[str, int] = {}
    spinning: list[str] = []
    if dep.fs is not None:
        lock_path = deploy.JOURNAL_PATH + ".lock"
        prev_on_op = dep.fs.on_op
        real_sleep = sim.sleep

        def on_op(op: str, path: str) -> None:
            if prev_on_op is not None:
                prev_on_op(op, path)
            t_ = sim.cur.name if sim.in_task() else None
            if t_ is None:
                return
            if path.startswith(lock_path) and op in ("symlink", "open_excl", "stat", "exists", "rename", "unlink"):
                spin[t_] = spin.get(t_, 0) + 1
                if spin[t_] > 4000 and not spinning:
                    spinning.append("%s made %d consecutive system calls on the lock file without sleeping (crashes so far: %r)" % (t_, spin[t_], crashes))
                    sim.count("probe.lock_busy_spin")
                    sim._cap()
            else:
                spin[t_] = 0

        def sleep(d: float) -> None:
            if sim.in_task():
                spin[sim.cur.name] = 0
            real_sleep(d)

        dep.fs.on_op = on_op
        sim.sleep = sleep  # type: ignore[method-assign]

    victims = {f["victim"] for f in faults if f.get("mode") != "interrupt"}
    holders: list[str] = []
    overlap: list[str] = []

    def _watch_lock(lock: Any) -> None:
        """Lock-interval monitor (from acquire() returning to release() being called)."""
        if getattr(lock, "_verif_watched", False):
            return
        lock._verif_watched = True
        oa, orl = lock.acquire, lock.release

        def acquire() -> bool:
            r = oa()
            me = sim.cur.name if sim.in_task() else "harness"
            holders.append(me)
            live = [h for h in holders if h == "harness" or not _task_dead(h)]
            if len(live) > 1 and not overlap:
                overlap.append("tasks %r are inside the critical section at once at step %d (crashes so far: %r)" % (live, sim.seq, crashes))
                sim.count("probe.two_lock_holders")
            return r

        def release() -> None:
            me = sim.cur.name if sim.in_task() else "harness"
            if me in holders:
                holders.remove(me)
            return orl()

        lock.acquire = acquire
        lock.release = release

    def _task_dead(name: str) -> bool:
        for tk in list(tasks) + [x for p_ in sim.procs for x in p_.tasks]:
            if tk.name == name:
                return tk.proc.dead
        return False

    if proxied:
        if journal:
            dep.server.on_start.append(lambda: _watch_lock(dep.server.inner._backend._lock))
            _watch_lock(dep.server.inner._backend._lock)

        def supervisor() -> None:
            # restarts the server process whenever it has died (systemd, k8s, a shell loop)
            while True:
                sim.block_until(lambda: dep.server.down, "supervisor")
                if cfg.get("restart_delay"):
                    sim.sleep(cfg["restart_delay"])
                try:
                    dep.server.start()
                    sim.count("server_restarted")
                except sched.SimKilled:
                    raise
                except Exception as e:  # noqa
                    verdict.append((prefix + "opener-raised|" + type(e).__name__, "the restarted server could not open the storage: %r" % (e,)))
                    return

        sup = sim.spawn(sim.proc("SUP"), "supervisor", supervisor)
        sup.daemon = True

    def make_task(name: str, t: dict) -> Any:
        def body() -> None:
            if t.get("late"):
                sim.block_until(lambda: bool(crashes) or all(tk.done for tk in tasks if tk.name in victims), "late-join")
            try:
                st = dep.client(procs[t["proc"]])
            except sched.SimKilled:
                raise
            except Exception as e:  # noqa
                verdict.append((prefix + "opener-raised|" + type(e).__name__, "%s could not open the storage: %r" % (name, e)))
                return
            if journal and not proxied:
                _watch_lock(st._backend._lock)
            for i, op in enumerate(t["ops"]):
                cur_op[name] = i
                h = {"task": name, "op": op, "inv": sim.stamp(), "ret": None, "res": None}
                t0 = sim.now
                ncr = len(crashes)
                history.append(h)
                sim.note("inv", name, op["op"])
                try:
                    res = ops.apply_real(st, op, env)
                    while proxied and res[0] == "err" and res[1] == "SimRpcError" and "server down" in res[2]:
                        # connection refused: nothing was sent; wait for the server and re-send
                        sim.count("client_waited_for_restart")
                        sim.block_until(lambda: not dep.server.down or bool(verdict), "reconnect")
                        if verdict:
                            return
                        res = ops.apply_real(st, op, env)
                except sched.SimKilled:
                    raise  # the interrupted call stays in the history as ambiguous (ret None)
                except KeyboardInterrupt:
                    # the call was interrupted, the worker goes on: outcome ambiguous (wholly
                    # applied or wholly absent), nothing of it may leak into later calls
                    sim.note("interrupted", name, op["op"])
                    if op["op"].startswith("get_"):
                        history.remove(h)
                    continue
                if proxied and res[0] == "err" and res[1] == "SimRpcError" and "server died" in res[2]:
                    # in flight when the server died: executed or not, the client cannot know
                    sim.count("rpc_in_flight_at_crash")
                    sim.note("ambiguous", name, op["op"])
                    if op["op"].startswith("get_"):
                        history.remove(h)
                    durations.append((name, sim.now - t0, len(crashes)))
                    continue
                if res[0] == "skip":
                    history.remove(h)
                    continue
                if res[0] == "ok" and op["op"] in ("create_new_study", "create_new_trial"):
                    env.real[op["as"]] = res[1][1]
                h["res"] = res
                h["ret"] = sim.stamp()
                durations.append((name, sim.now - t0, len(crashes)))
                sim.note("ret", name, res[:2] if res[0] == "err" else c03._digestable(res))
            cur_op.pop(name, None)
            if hasattr(st, "remove_session"):
                st.remove_session()

        return body

    tasks = []
    for n, t in sorted(plan["tasks"].items()):
        tasks.append(sim.spawn(procs[t["proc"]], n, make_task(n, t)))
    status = sim.run()
    fired = len(crashes) + len(interrupts)
    if status == "deadlock":
        why = "; ".join("%s blocked on %s" % (t.name, t.blocked_why) for t in tasks if not t.done)
        return common.result(sim, ch, "violation", prefix + "deadlock", why + " after crashes %r" % crashes, nontrivial=fired > 0)
    if status == "stepcap" and spinning:
        return common.result(sim, ch, "violation", prefix + "no-progress|busy spin on the lock file", spinning[0], nontrivial=fired > 0)
    if status == "stepcap":
        # liveness is judged in simulated time: survivors that spin in back-off sleeps pile up
        # virtual seconds; a long but progressing run (big records, small read blocks) does not
        bound = len(crashes) * (cfg["grace_period"] + 1) + 300.0
        if sim.now - sim.t0 > bound:
            return common.result(sim, ch, "violation", prefix + "no-progress", "step cap after %.0f simulated seconds (bound %.0f): survivors did not finish after crashes %r" % (sim.now - sim.t0, bound, crashes), nontrivial=fired > 0)
        return common.result(sim, ch, "inconclusive", None, "step cap (long run)", nontrivial=fired > 0)
    for t in tasks:
        if t.exc is not None and not isinstance(t.exc, sched.SimKilled):
            raise RuntimeError("task %s died: %r" % (t.name, t.exc)) from t.exc
    if overlap:
        cls = "takeover-race|two lock holders after a stale-lock takeover" if crashes else "lock-overlap-without-crash"
        return common.result(sim, ch, "violation", prefix + cls, overlap[0], nontrivial=fired > 0)
    if verdict:
        return common.result(sim, ch, "violation", verdict[0][0], verdict[0][1] + " after crashes %r" % crashes, nontrivial=fired > 0)
    # ops that never started (victim died earlier) are not in the history; the interrupted one has ret None
    for h in history:
        if h["res"] is not None and h["res"][0] == "err" and h["res"][1] not in DOCUMENTED:
            return common.result(sim, ch, "violation", prefix + "survivor-raised|%s" % h["res"][1], "%s %s -> %s after crashes %r" % (h["task"], json.dumps(h["op"])[:200], h["res"][2], crashes), nontrivial=fired > 0)
    # the stale-lock takeover race: a survivor's release() finds its lock gone
    for h in history:
        if h["res"] is not None and h["res"][0] == "err" and "did not possess lock" in h["res"][2]:
            return common.result(sim, ch, "violation", prefix + "takeover-race|RuntimeError did not possess lock in %s" % h["op"]["op"], "%s %s -> %s after crashes %r" % (h["task"], json.dumps(h["op"])[:200], h["res"][2], crashes), nontrivial=fired > 0)
    # bounded liveness
    grace = cfg["grace_period"] if journal else 0
    for name, d, ncr in durations:
        bound = ncr * (grace + 1 + float(cfg.get("restart_delay", 0.0))) + 5
        if d > bound:
            return common.result(sim, ch, "violation", prefix + "slow-recovery", "%s: a call took %.3f simulated seconds (bound %d) after crashes %r" % (name, d, bound, crashes), nontrivial=fired > 0)
    # final reads: every survivor's own storage object, then a fresh opener
    seams.set_sim(sim, dep.fs)
    if proxied and dep.server.down:
        try:
            dep.server.start()  # the run ended before the supervisor's restart
        except Exception as e:  # noqa
            return common.result(sim, ch, "violation", prefix + "opener-raised|" + type(e).__name__, "the restarted server could not open the storage: %r after crashes %r" % (e, crashes), nontrivial=fired > 0)
    studies = sorted(h for h in env.real if "S" in h and "T" not in h)
    trials = sorted(h for h in env.real if "T" in h)
    readers: list[tuple[str, Any]] = []
    for n, t in sorted(plan["tasks"].items()):
        p = procs[t["proc"]]
        if not p.dead and t["proc"] in dep.storages:
            readers.append(("survivor:" + n, dep.storages[t["proc"]]))
    try:
        readers.append(("fresh", dep.observer()))
    except Exception as e:  # noqa
        return common.result(sim, ch, "violation", prefix + "opener-raised|" + type(e).__name__, "a fresh opener raised %r after crashes %r" % (e, crashes), nontrivial=fired > 0)
    for rname, st in readers:
        for op in gen.sweep_ops(None, studies, trials, light=True):
            inv = sim.stamp()
            res = ops.apply_real(st, op, env)
            if res[0] == "err" and res[1] not in DOCUMENTED:
                return common.result(sim, ch, "violation", prefix + "reader-raised|%s" % res[1], "%s %s -> %s after crashes %r" % (rname, op["op"], res[2], crashes), nontrivial=fired > 0)
            history.append({"task": rname, "op": op, "inv": inv, "ret": sim.stamp(), "res": res})
    lin = linearize.check(history, m, env, max_nodes=80000)
    if lin["inconclusive"]:
        return common.result(sim, ch, "inconclusive", None, "linearizability search budget", nontrivial=fired > 0)
    if not lin["ok"]:
        hist = ["%s[%s..%s] %s -> %s" % (h["task"], h["inv"], h["ret"], c03._short(h["op"]), "AMBIGUOUS (issuer died)" if h["ret"] is None else c03._res_short(h["res"])) for h in history if not h["task"].startswith(("survivor:", "fresh"))]
        cls = "lost-or-partial-write"
        wonly = [h for h in history if h["task"].startswith(("survivor:", "fresh")) or not h["op"]["op"].startswith("get_")]
        if len(wonly) < len(history):
            lin2 = linearize.check(wonly, m, env, max_nodes=60000)
            if lin2["ok"] and not lin2["inconclusive"]:
                cls = "torn-read"  # only a concurrent read cannot be placed (writes, crash outcome and final state are fine)
        return common.result(sim, ch, "violation", prefix + cls + "|" + lin["why"][:160], "crashes %r\nhistory:\n  " % crashes + "\n  ".join(hist) + "\ndeepest failure: " + lin["why"], nontrivial=fired > 0)
    return common.result(sim, ch, "ok", nontrivial=fired > 0, extra_counters={"crashes_fired": fired, "history_ops": len(history), "runs_without_crash": 0 if fired else 1})
