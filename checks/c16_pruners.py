"""C16 - pruners never prune what their contract protects.

K <= 4 simulated workers each run a training loop (`trial.report(v, step)`,
`trial.should_prune()`, `study.tell`) on their own trials of one shared study, interleaved by
the scheduler between API calls (and at the storage's lock / SQL / file seams inside the
calls), so that percentiles and rung tables are observed half-filled.  A pool of earlier
COMPLETE/PRUNED/FAIL trials (with intermediate values and, for the halving pruners, rung
attributes) exists before the workers start.  The pruner, all its parameters and the study
direction are drawn per run.  One designated worker reports values that are strictly better
than everything reported so far by anyone else (computed at report time).

The harness keeps its own record of what was reported by whom (a value counts as reported
from the moment `report` is *invoked*, a trial as finished from the moment `tell` is
*invoked*), so every monitor below is evaluated against an over-approximation of what the
pruner can have seen and is therefore sound under every interleaving.

Monitors on every `should_prune()` return (True is a violation when a protection holds):
  no-report        no value reported yet (every pruner)
  warmup           last step < n_warmup_steps (median, percentile, threshold)
  min-resource     last step below the first rung (halving with integer min_resource, hyperband)
  startup          fewer than n_startup_trials trials have finished (median, percentile)
  patience-count / patience-improved   patient pruner: at most patience+1 reported steps, or the
                   best value of the last patience+1 steps is strictly better than all before
  always-better    the value(s) the pruner looks at are strictly better than every value ever
                   reported by any other trial (median, percentile, halving without bootstrap,
                   hyperband without bootstrap)
  kept-percentile  (percentile/median) fewer than floor(q/100*(n-1)) of the n completed trials'
                   values at this step are strictly better than the trial's best value: the
                   documented "top q percent are kept", evaluated only when the set of
                   completed trials is unambiguous (no tell in flight)
  within-bounds / threshold-missed   threshold pruner prunes only if the checked value is NaN or
                   outside the bounds, and does prune when it is and the step is on the check grid
  nop              the no-op pruner never prunes
  bracket          at the end: the Hyperband bracket of every trial, computed by the pruner's own
                   bracket function, is the same on another storage with another history for the
                   same (study name, trial number)
  hyperband-init   a HyperbandPruner object whose lazy initialisation ran more than once (workers
                   that are threads share the Study and its pruner, as study.optimize(n_jobs=k)
                   does): doubled bracket tables change every trial's bracket or make the bracket
                   function hit its "unreachable" assertion in ask()/should_prune()/tell()
  raised           any other exception raised from inside optuna/pruners during a worker's call
A PatientPruner wrapping pruner X inherits all "never True" protections of X.
"""
from __future__ import annotations

import math
import os
import random
from typing import Any

from checks import common
from simkit import deploy, sched, seams

# kept-percentile goes beyond the property as stated (it is the docstring reading of
# PercentilePruner); it is off unless VERIF_C16_EXTRA=1 so that the check never alarms on a
# change that keeps the stated property
import os as _os

EXTRA_MONITORS = _os.environ.get("VERIF_C16_EXTRA") == "1"

ID = "C16"
LEVEL = "exploration"
BUDGET = {"quick": 50, "thorough": 900}

DEPLOYMENTS = [("mem", 8.0), ("cached", 0.3), ("jf-sym", 0.9), ("grpc(mem)", 0.8)]

EVIDENCE = {
    "rule": "one case = one simulated execution of a generated plan: deployment, pruner with all parameters, direction, pool of finished trials, 1-4 worker scripts (report / should_prune / tell / die), scheduler decisions. Non-trivial = at least one context switch between workers and at least 3 should_prune() results were checked; distinct = distinct digests over every scheduling decision, reported value and should_prune result.",
    "assumptions": [
        "workers interleave between API calls and at the seams inside them (storage locks, SQL statements, journal file syscalls); no line-level pre-emption inside the pruners themselves",
        "a value counts as 'reported by another trial' from the invocation of report(), a trial as finished from the invocation of tell(): protections are evaluated against this over-approximation, so they are never stronger than what the code can guarantee",
        "kept-percentile is the docstring reading of PercentilePruner ('top q percent are kept'); it is only asserted when no tell() is in flight during the should_prune() call",
        "WilcoxonPruner is outside the property",
        "the cached deployment runs on SQLite",
    ],
    "components": {
        "real": "optuna pruners, Study.ask/tell/add_trial, Trial.report/should_prune, in-memory / cached+RDB(SQLite) / journal-file storages, numpy",
        "stub": "OS scheduler, threading locks, clocks, uuid, journal file system (SimFS), SQLite busy handler",
    },
}

GRID = [-2.0, -1.0, -0.5, 0.0, 0.25, 0.5, 0.75, 1.0, 1.5, 2.0, 3.0]
INF = float("inf")


def deployments() -> list[tuple[str, float]]:
    only = os.environ.get("VERIF_DEPLOYMENTS")
    return [(k, w) for k, w in DEPLOYMENTS if not only or k in only.split(",")]


# ---------------------------------------------------------------------- generation
def _gen_pruner(rng: random.Random, allow_patient: bool = True) -> dict | None:
    kinds = [("median", 2.0), ("percentile", 3.0), ("sha", 3.0), ("hyperband", 3.0), ("threshold", 2.0), ("nop", 0.4)]
    if allow_patient:
        kinds.append(("patient", 3.0))
    k = common.weighted(rng, kinds)
    if k in ("median", "percentile"):
        s = {"kind": k, "n_startup_trials": rng.choice([0, 0, 1, 2, 3, 5]), "n_warmup_steps": rng.choice([0, 0, 1, 2, 3, 4]), "interval_steps": rng.choice([1, 1, 2, 3]), "n_min_trials": rng.choice([1, 1, 2, 3])}
        if k == "percentile":
            s["percentile"] = rng.choice([0.0, 10.0, 25.0, 50.0, 75.0, 90.0, 100.0, 33.3])
        return s
    if k == "sha":
        mr: Any = rng.choice(["auto", 1, 1, 2, 3])
        bc = 0 if (mr == "auto" or rng.random() < 0.8) else rng.choice([1, 2])
        return {"kind": k, "min_resource": mr, "reduction_factor": rng.choice([2, 2, 3, 4]), "min_early_stopping_rate": rng.choice([0, 0, 1, 2]), "bootstrap_count": bc}
    if k == "hyperband":
        mx: Any = rng.choice(["auto", 4, 8, 9, 27])
        bc = 0 if (mx == "auto" or rng.random() < 0.85) else rng.choice([1, 2])
        return {"kind": k, "min_resource": rng.choice([1, 1, 2]), "max_resource": mx, "reduction_factor": rng.choice([2, 3, 3]), "bootstrap_count": bc}
    if k == "threshold":
        # bounds include exact zeros (float and int) and negative uppers: falsy / sign-dependent handling
        lo: Any = rng.choice([None, -1.0, 0.0, 0.5, 0, -2.0])
        his = [h for h in (1.0, 1.5, 2.0, 0.0, 0, -0.5, 1) if lo is None or h >= lo]
        hi: Any = rng.choice(his) if lo is None else rng.choice([None] + his)
        return {"kind": k, "lower": lo, "upper": hi, "n_warmup_steps": rng.choice([0, 0, 1, 2, 3]), "interval_steps": rng.choice([1, 1, 2, 3])}
    if k == "patient":
        w = None if rng.random() < 0.3 else _gen_pruner(rng, allow_patient=False)
        return {"kind": k, "patience": rng.choice([0, 1, 1, 2, 3]), "min_delta": rng.choice([0.0, 0.0, 0.25, 1.0]), "wrapped": w}
    return {"kind": "nop"}


def _has_kind(spec: dict | None, kind: str) -> bool:
    while spec is not None:
        if spec["kind"] == kind:
            return True
        spec = spec.get("wrapped")
    return False


def _gen_value(rng: random.Random, hero: bool) -> list:
    if hero:
        if rng.random() < 0.02:
            return ["inf", -1]
        return ["hero", rng.choice([0.25, 0.5, 1.0, 2.0])]
    r = rng.random()
    if r < 0.55:
        return ["rel", rng.choice([0.25, 0.5, 1.0, 1.0, 3.0])]
    if r < 0.64:
        return ["rel", rng.choice([0.0, -0.25, -1.0])]
    if r < 0.86:
        return ["abs", rng.choice(GRID)]
    if r < 0.94:
        return ["nan"]
    if r < 0.98:
        return ["inf", 1]
    return ["inf", -1]


def _gen_worker_ops(rng: random.Random, hero: bool, big: bool) -> list[dict]:
    ops: list[dict] = []
    for _ in range(rng.choice([1, 1, 2, 2, 3])):
        step = rng.choice([0, 0, 0, 0, 1, 2])
        if rng.random() < 0.05:
            ops.append({"op": "sp", "obey": True})  # should_prune before any report
        nrep = rng.randint(1, 9 if big else 7)
        consecutive = rng.random() < 0.5
        for _ in range(nrep):
            rop: dict = {"op": "report", "step": step, "v": _gen_value(rng, hero)}
            if rng.random() < 0.08:
                rop["fail_write"] = True  # the storage write of this report fails once; the worker reports again
            ops.append(rop)
            r = rng.random()
            if r < 0.85:
                ops.append({"op": "sp", "obey": rng.random() < 0.85})
            elif r < 0.9:
                ops.append({"op": "sp", "obey": False})
                ops.append({"op": "sp", "obey": True})
            if consecutive or rng.random() < 0.6:
                step += 1
            else:
                q = rng.random()
                if q < 0.55:
                    step += rng.choice([2, 2, 3, 5])
                elif q < 0.85:
                    step = max(0, step - rng.choice([1, 2, 3]))  # out of order
                # else: same step again (ignored by report)
        r = rng.random()
        if r < 0.12 and not hero:
            ops.append({"op": "die"})
            break
        if r < 0.2:
            ops.append({"op": "tell", "state": "FAIL"})
        elif r < 0.25:
            ops.append({"op": "tell", "state": "PRUNED"})
        else:
            ops.append({"op": "tell", "state": "COMPLETE", "value": rng.choice(GRID)})
    return ops


def _gen_pool(rng: random.Random, spec: dict, n: int) -> list[dict]:
    pool = []
    halving = _has_kind(spec, "sha") or _has_kind(spec, "hyperband")
    for _ in range(n):
        state = common.weighted(rng, [("COMPLETE", 6.0), ("PRUNED", 2.0), ("FAIL", 1.0)])
        steps = sorted(rng.sample(range(0, 10), rng.randint(0, 7)))
        if rng.random() < 0.5:
            steps = list(range(0, rng.randint(0, 9)))
        iv = []
        for s in steps:
            r = rng.random()
            v: Any = rng.choice(GRID) if r < 0.88 else ("nan" if r < 0.95 else ("inf" if r < 0.98 else "-inf"))
            iv.append([s, v])
        t = {"state": state, "value": rng.choice(GRID) if state == "COMPLETE" else None, "iv": iv, "rungs": []}
        if halving and iv and rng.random() < 0.7:
            finite = [v for _, v in iv if not isinstance(v, str) or v != "nan"]
            for _r in range(rng.randint(1, 3)):
                if finite:
                    t["rungs"].append(rng.choice(finite))
        pool.append(t)
    return pool


def gen_plan(seed: int, run: int, tier: str) -> dict:
    rng = common.rng_for(seed, run, "work")
    kind = common.weighted(rng, deployments())
    big = tier != "quick"
    spec = _gen_pruner(rng)
    direction = rng.choice(["minimize", "maximize"])
    k = rng.choice([1, 2, 2, 3, 3, 4])
    names = ["w%d" % i for i in range(k)]
    hero = rng.choice(names) if rng.random() < 0.75 else None
    if kind == "mem":
        procs = {n: "P0" for n in names}
    else:
        mode = rng.choice(["threads", "procs", "mixed"])
        procs = {n: ("P0" if mode == "threads" else "P%d" % (i if mode == "procs" else min(i, 1))) for i, n in enumerate(names)}
    workers = {n: {"proc": procs[n], "ops": _gen_worker_ops(rng, n == hero, big)} for n in names}
    cfg = {
        "deployment": kind,
        "p_seam": rng.choice([0.05, 0.2, 0.5]),
        "p_line": 0.0,
        "read_block": rng.choice([64, 8192]),
        "snapshot_interval": rng.choice([3, 100]),
        "busy_timeout": 300.0,
        "shared_study_object": rng.random() < 0.6,
    }
    return {
        "check": ID,
        "seed": seed,
        "run": run,
        "cfg": cfg,
        "study_name": "s%d" % rng.randint(0, 40),
        "direction": direction,
        "pruner": spec,
        "decoy_trials": rng.choice([0, 1, 2, 3, 5]),
        "pool": _gen_pool(rng, spec, rng.choice([0, 1, 2, 3, 4, 6, 8 if big else 5])),
        "hero": hero,
        "workers": workers,
        "sched": {"seed": rng.getrandbits(48)},
    }


def shrink_paths(plan: dict) -> list[tuple]:
    paths: list[tuple] = [("workers", n, "ops") for n in sorted(plan["workers"])]
    paths.append(("pool",))
    paths.append(("sched", "table"))
    return paths


def signature_class(sig: str) -> str:
    f = sig.split("|")
    if len(f) > 2 and f[2] == "hyperband-init":
        return "%s|hyperband-init" % f[0]  # one class whatever the deployment / wrapper
    return "|".join(f[:4])


def _spec_name(spec: dict | None) -> str:
    if spec is None:
        return "None"
    if spec["kind"] == "patient":
        return "patient(%s)" % _spec_name(spec.get("wrapped"))
    return spec["kind"]


def _op_short(o: dict) -> str:
    if o["op"] == "report":
        return "report(%s,%d)" % ("".join(str(x) for x in o["v"]), o["step"])
    if o["op"] == "sp":
        return "sp" if o.get("obey", True) else "sp(ignore)"
    if o["op"] == "tell":
        return "tell(%s)" % (o.get("value") if o.get("state") == "COMPLETE" else o.get("state"))
    return o["op"]


def sample_view(plan: dict, res: dict) -> dict:
    return {
        "deployment": plan["cfg"]["deployment"],
        "direction": plan["direction"],
        "pruner": plan["pruner"],
        "pool": ["%s iv=%s rungs=%s" % (t["state"], t["iv"], t["rungs"]) for t in plan["pool"]],
        "hero": plan["hero"],
        "workers": {n: {"proc": w["proc"], "ops": " ".join(_op_short(o) for o in w["ops"])} for n, w in sorted(plan["workers"].items())},
        "switches": res["switches"],
        "status": res["status"],
    }


# ---------------------------------------------------------------------- pruner construction
def make_pruner(spec: dict | None) -> Any:
    import optuna

    if spec is None:
        return None
    P = optuna.pruners
    k = spec["kind"]
    if k == "median":
        return P.MedianPruner(n_startup_trials=spec["n_startup_trials"], n_warmup_steps=spec["n_warmup_steps"], interval_steps=spec["interval_steps"], n_min_trials=spec["n_min_trials"])
    if k == "percentile":
        return P.PercentilePruner(spec["percentile"], n_startup_trials=spec["n_startup_trials"], n_warmup_steps=spec["n_warmup_steps"], interval_steps=spec["interval_steps"], n_min_trials=spec["n_min_trials"])
    if k == "sha":
        return P.SuccessiveHalvingPruner(min_resource=spec["min_resource"], reduction_factor=spec["reduction_factor"], min_early_stopping_rate=spec["min_early_stopping_rate"], bootstrap_count=spec["bootstrap_count"])
    if k == "hyperband":
        return P.HyperbandPruner(min_resource=spec["min_resource"], max_resource=spec["max_resource"], reduction_factor=spec["reduction_factor"], bootstrap_count=spec["bootstrap_count"])
    if k == "threshold":
        return P.ThresholdPruner(lower=spec["lower"], upper=spec["upper"], n_warmup_steps=spec["n_warmup_steps"], interval_steps=spec["interval_steps"])
    if k == "patient":
        return P.PatientPruner(make_pruner(spec.get("wrapped")), patience=spec["patience"], min_delta=spec["min_delta"])
    if k == "nop":
        return P.NopPruner()
    raise ValueError(k)


def _find_hyperband(pruner: Any) -> Any:
    import optuna

    while pruner is not None:
        if isinstance(pruner, optuna.pruners.HyperbandPruner):
            return pruner
        pruner = getattr(pruner, "_wrapped_pruner", None)
    return None


# ---------------------------------------------------------------------- values
def _raw(v: Any) -> float:
    if isinstance(v, str):
        return float(v)
    return float(v)


def _isnan(x: float) -> bool:
    return x != x


def _best_loss(vals: Any, sgn: float) -> float | None:
    """Best (lowest) non-NaN loss among raw values, None if there is none."""
    best = None
    for v in vals:
        if _isnan(v):
            continue
        l = sgn * v
        if best is None or l < best:
            best = l
    return best


# ---------------------------------------------------------------------- monitors
def _protections(spec: dict, c: dict) -> list[str]:
    """Reasons why should_prune() must be False now (empty = nothing is asserted)."""
    k = spec["kind"]
    iv: dict[int, float] = c["iv"]
    sgn: float = c["sgn"]
    if k == "nop":
        return ["nop"]
    if not iv:
        return ["no-report"]
    out: list[str] = []
    last = max(iv)
    if k in ("median", "percentile"):
        if last < spec["n_warmup_steps"]:
            out.append("warmup")
        if c["n_finished_upper"] < spec["n_startup_trials"]:
            out.append("startup")
        best = _best_loss(iv.values(), sgn)
        if best is not None:
            if c["min_others"] is None or best < c["min_others"]:
                out.append("always-better")
            if c["complete_set_certain"] and EXTRA_MONITORS:
                q = 50.0 if k == "median" else spec["percentile"]
                losses = [sgn * t["iv"][last] for t in c["others"] if t["state"] == "COMPLETE" and last in t["iv"] and not _isnan(t["iv"][last])]
                n = len(losses)
                if n >= 1:
                    m = sum(1 for l in losses if l < best)
                    if m == 0 or m < q / 100.0 * (n - 1) - 1e-6:
                        out.append("kept-percentile")
    elif k == "threshold":
        if last < spec["n_warmup_steps"]:
            out.append("warmup")
        v = iv[last]
        lo = -INF if spec["lower"] is None else spec["lower"]
        hi = INF if spec["upper"] is None else spec["upper"]
        if not _isnan(v) and lo <= v <= hi:
            out.append("within-bounds")
    elif k in ("sha", "hyperband"):
        if k == "sha":
            if isinstance(spec["min_resource"], int) and last < spec["min_resource"] * spec["reduction_factor"] ** spec["min_early_stopping_rate"]:
                out.append("min-resource")
        elif last < spec["min_resource"]:
            out.append("min-resource")
        v = iv[last]
        if spec["bootstrap_count"] == 0 and not _isnan(v):
            if c["min_others"] is None or sgn * v < c["min_others"]:
                out.append("always-better")
    elif k == "patient":
        p = spec["patience"]
        steps = sorted(iv)
        if len(steps) <= p + 1:
            out.append("patience-count")
        else:
            bb = _best_loss([iv[s] for s in steps[: -p - 1]], sgn)
            ba = _best_loss([iv[s] for s in steps[-p - 1 :]], sgn)
            if bb is not None and ba is not None and ba < bb:
                out.append("patience-improved")
        if spec.get("wrapped") is not None:
            out.extend(_protections(spec["wrapped"], c))
    return out


def _must_prune(spec: dict, c: dict) -> str | None:
    if spec["kind"] != "threshold" or not c["iv"]:
        return None
    iv = c["iv"]
    last = max(iv)
    w = spec["n_warmup_steps"]
    if last < w or (last - w) % spec["interval_steps"] != 0:
        return None
    v = iv[last]
    lo = -INF if spec["lower"] is None else spec["lower"]
    hi = INF if spec["upper"] is None else spec["upper"]
    if _isnan(v) or v < lo or v > hi:
        return "threshold-missed"
    return None


# ---------------------------------------------------------------------- execution
def run_plan(plan: dict) -> dict:
    import warnings

    cfg = plan["cfg"]
    ch = common.make_chooser(plan)
    sim = sched.Sim(ch, trace_suffixes=(), max_steps=400000, uuid_salt=str(plan.get("run", 0)))
    dep = deploy.Deployment(sim, cfg["deployment"], cfg)
    from optuna.pruners import _successive_halving as _sh

    # monitor "bracket-isolation": the study view that Hyperband hands to a bracket's pruner
    # stays on the bracket of the trial being judged (a function of study name and trial
    # number) for the whole call - also when other threads use the same pruner object
    orig_prune = _sh.SuccessiveHalvingPruner.prune
    mixed: list[tuple] = []

    def prune(self_: Any, study: Any, trial: Any) -> bool:
        try:
            d = object.__getattribute__(study, "__dict__")
        except AttributeError:
            d = {}
        hb = d.get("pruner")
        if "_bracket_id" not in d or not hasattr(hb, "_get_bracket_id"):
            return orig_prune(self_, study, trial)
        exp = hb._get_bracket_id(study, trial)
        before = d["_bracket_id"]
        r = orig_prune(self_, study, trial)
        after = d["_bracket_id"]
        sim.count("bracket_view_checked")
        if (before != exp or after != exp) and not mixed:
            mixed.append((trial.number, exp, before, after))
        return r

    _sh.SuccessiveHalvingPruner.prune = prune  # type: ignore[method-assign]
    try:
        with warnings.catch_warnings():
            warnings.simplefilter("ignore")
            res = _run(plan, sim, ch, dep)
        if mixed and res.get("status") != "violation":
            num, exp, before, after = mixed[0]
            return common.result(sim, ch, "violation", "%s|%s|bracket-isolation|hyperband|view switched to another bracket" % (ID, cfg["deployment"]), "while trial number %d (bracket %r) was being judged, the bracket view handed to its bracket pruner was on bracket %r at the start and %r at the end of the call (shared between threads?)" % (num, exp, before, after), nontrivial=bool(res.get("nontrivial")))
        return res
    finally:
        _sh.SuccessiveHalvingPruner.prune = orig_prune  # type: ignore[method-assign]
        dep.close()


class _Abort(Exception):
    """An API call failed for a reason that is not the pruner's business (storage error)."""


def _run(plan: dict, sim: sched.Sim, ch: sched.Chooser, dep: deploy.Deployment) -> dict:
    import datetime

    import optuna
    from optuna.trial import TrialState

    cfg = plan["cfg"]
    kind = cfg["deployment"]
    spec = plan["pruner"]
    direction = plan["direction"]
    sgn = 1.0 if direction == "minimize" else -1.0
    name = plan["study_name"]
    pname = _spec_name(spec)
    prefix = "%s|%s|" % (ID, kind)
    hero = plan.get("hero")
    if hero not in plan["workers"]:
        hero = None

    # ---- processes, storages, studies (sequential set-up through the first client)
    procs: dict[str, Any] = {}
    for n, w in sorted(plan["workers"].items()):
        if w["proc"] not in procs:
            procs[w["proc"]] = sim.proc(w["proc"])
    if not procs:
        procs["P0"] = sim.proc("P0")
    storages = {pn: dep.client(p) for pn, p in sorted(procs.items())}
    first = storages[sorted(storages)[0]]
    # a decoy study with a few trials first, so that trial ids differ from trial numbers
    decoy_id = first.create_new_study([optuna.study.StudyDirection.MINIMIZE], "decoy")
    for _ in range(int(plan.get("decoy_trials", 0))):
        first.create_new_trial(decoy_id)
    pruners: list[Any] = []

    def new_study(st: Any, create: bool) -> Any:
        pr = make_pruner(spec)
        pruners.append(pr)
        sampler = optuna.samplers.RandomSampler(seed=1)
        if create:
            return optuna.create_study(storage=st, study_name=name, direction=direction, pruner=pr, sampler=sampler)
        return optuna.load_study(study_name=name, storage=st, pruner=pr, sampler=sampler)

    study0 = new_study(first, True)
    # registry of everything the harness knows about the trials of the study
    reg: dict[int, dict] = {}
    G: dict[str, Any] = {"n_finished_upper": 0, "complete_inflight": 0, "epoch": 0, "verdict": None, "abort": None, "sp": 0, "sp_true": 0, "reports": 0}
    fixed_dt = datetime.datetime(2023, 11, 14, 22, 13, 20)
    for i, t in enumerate(plan["pool"]):
        iv = {int(s): _raw(v) for s, v in t["iv"]}
        sa = {"completed_rung_%d" % r: _raw(v) for r, v in enumerate(t.get("rungs", []))}
        state = {"COMPLETE": TrialState.COMPLETE, "PRUNED": TrialState.PRUNED, "FAIL": TrialState.FAIL}[t["state"]]
        ft = optuna.trial.create_trial(state=state, value=t["value"] if state == TrialState.COMPLETE else None, intermediate_values=iv, system_attrs=sa)
        ft.datetime_start = fixed_dt
        ft.datetime_complete = fixed_dt
        study0.add_trial(ft)
        reg[i] = {"iv": iv, "extra": list(sa.values()), "state": t["state"], "worker": None}
        G["n_finished_upper"] += 1
    studies: dict[str, Any] = {}
    by_proc: dict[str, Any] = {sorted(storages)[0]: study0}
    for n, w in sorted(plan["workers"].items()):
        pn = w["proc"]
        if cfg.get("shared_study_object", True):
            if pn not in by_proc:
                by_proc[pn] = new_study(storages[pn], False)
            studies[n] = by_proc[pn]
        else:
            studies[n] = new_study(storages[pn], False)
    for st in storages.values():
        if hasattr(st, "remove_session"):
            st.remove_session()

    # ---- harness-side knowledge
    def all_vals(t: dict) -> list[float]:
        return list(t["iv"].values()) + t["extra"] + t.get("invoked", [])

    def min_others(me: int) -> float | None:
        best = None
        for num, t in reg.items():
            if num == me:
                continue
            b = _best_loss(all_vals(t), sgn)
            if b is not None and (best is None or b < best):
                best = b
        return best

    def value_for(vspec: list, me: int) -> float:
        k = vspec[0]
        if k == "nan":
            return float("nan")
        if k == "inf":
            return sgn * (INF if vspec[1] > 0 else -INF)
        if k == "abs":
            return float(vspec[1])
        if k == "rel":
            finite = [l for l in (_best_loss(all_vals(t), sgn) for t in reg.values()) if l is not None and not math.isinf(l)]
            base = min(finite) if finite else 0.0
            return sgn * (base + vspec[1])
        if k == "hero":
            mo = min_others(me)
            if mo is None:
                base = 0.0
            elif math.isinf(mo):
                finite = [l for l in (sgn * v for num, t in reg.items() if num != me for v in all_vals(t)) if not _isnan(l) and not math.isinf(l)]
                base = min(finite) if finite else 0.0
                if mo < 0:
                    return sgn * -INF  # nothing can be strictly better than -inf loss
            else:
                base = mo
            return sgn * (base - vspec[1])
        raise ValueError(vspec)

    def fail(monitor: str, why: str, detail: str) -> None:
        if G["verdict"] is None:
            G["verdict"] = (prefix + monitor + "|" + pname + "|" + why, detail)

    def history_text(num: int) -> str:
        lines = []
        for n2, t in sorted(reg.items()):
            lines.append("  trial %d [%s%s] iv=%s%s" % (n2, t["state"], (" by " + t["worker"]) if t["worker"] else " pool", {s: t["iv"][s] for s in sorted(t["iv"])}, (" rungs=%s" % t["extra"]) if t["extra"] else ""))
        return "pruner=%s direction=%s study=%s\n%s\n  -> should_prune() of trial %d" % (spec, direction, name, "\n".join(lines), num)

    def hb_init_broken() -> str | None:
        """A HyperbandPruner whose lazy initialisation ran more than once (shared by threads)."""
        for pr in pruners:
            hb = _find_hyperband(pr)
            if hb is not None and hb._n_brackets is not None and (len(hb._pruners) not in (0, hb._n_brackets) or len(hb._trial_allocation_budgets) not in (0, hb._n_brackets) or sum(hb._trial_allocation_budgets) != hb._total_trial_allocation_budget):
                return "n_brackets=%r but %d bracket pruners, budgets=%r, total budget=%r" % (hb._n_brackets, len(hb._pruners), hb._trial_allocation_budgets, hb._total_trial_allocation_budget)
        return None

    failed_writes: dict[int, set] = {}

    def call(what: str, num: int, fn: Any, *a: Any, **k: Any) -> Any:
        """One API call of a worker.  Storage errors end the run as inconclusive; an exception
        raised from inside optuna/pruners is a verdict; anything else is a harness error."""
        import traceback

        from optuna.exceptions import StorageInternalError

        try:
            return fn(*a, **k)
        except StorageInternalError as e:
            G["abort"] = "storage error: %r" % (e,)
            raise _Abort() from e
        except Exception as e:  # noqa
            frames = traceback.extract_tb(e.__traceback__)
            if not any("/optuna/pruners/" in f.filename for f in frames):
                raise
            where = "%s:%s" % (os.path.basename(frames[-1].filename), frames[-1].name)
            sim.note("raised", what, num, type(e).__name__, where)
            broken = hb_init_broken()
            if broken is not None:
                fail("hyperband-init", "initialised more than once", "%s() of trial %d raised %r at %s; the HyperbandPruner object shared by the workers was initialised more than once: %s\n%s" % (what, num, e, where, broken, history_text(num)))
            else:
                fail("raised", "%s in %s at %s" % (type(e).__name__, what, where), history_text(num) + " / %s() raised %r" % (what, e))
            raise _Abort() from e

    def check_sp(w: str, num: int, sp: Any, inflight_at_inv: int, epoch_at_inv: int) -> None:
        t = reg[num]
        G["sp"] += 1
        certain = inflight_at_inv == 0 and G["epoch"] == epoch_at_inv
        c = {
            "iv": t["iv"],
            "sgn": sgn,
            "n_finished_upper": G["n_finished_upper"],
            "min_others": min_others(num),
            "complete_set_certain": certain,
            "others": [t2 for n2, t2 in sorted(reg.items()) if n2 != num],
        }
        prot = _protections(spec, c)
        must = _must_prune(spec, c)
        for p in prot:
            sim.count("armed:" + p)
        if w == hero and "always-better" in prot:
            sim.count("armed:always-better(designated)")
        if must:
            sim.count("armed:" + must)
        if not certain:
            sim.count("tell_overlapped_should_prune")
        sp = bool(sp)  # numpy booleans are fine
        sim.note("sp", w, num, sp, prot, must)
        if sp:
            G["sp_true"] += 1
            if prot:
                fail(prot[0], "%s pruned although protected by %s" % (direction, "+".join(prot)), history_text(num) + " returned True; protections: %s (finished<=%d, best other loss=%r)" % (prot, c["n_finished_upper"], c["min_others"]))
        elif must:
            fail(must, "%s not pruned although value out of bounds/NaN at a checked step" % direction, history_text(num) + " returned False")

    def make_task(w: str, ops: list[dict]) -> Any:
        study = studies[w]
        st = storages[plan["workers"][w]["proc"]]

        def body() -> None:
            cur: Any = None
            num = -1
            last_sp = False
            try:
                for op in ops:
                    if G["verdict"] is not None or G["abort"] is not None:
                        return
                    k = op["op"]
                    if k == "die":
                        sim.count("worker_died_running")
                        return
                    sim.seam("step")
                    if cur is None:
                        cur = call("ask", -1, study.ask)
                        num = cur.number
                        if num in reg:
                            raise RuntimeError("trial number %d handed out twice" % num)
                        reg[num] = {"iv": {}, "extra": [], "invoked": [], "state": "RUNNING", "worker": w}
                        sim.note("ask", w, num)
                        last_sp = False
                        sim.seam("step")
                    t = reg[num]
                    if k == "report":
                        v = value_for(op["v"], num)
                        step = int(op["step"])
                        # known to the others from the moment of invocation
                        t["invoked"].append(v)
                        if step not in t["iv"]:
                            t["iv"][step] = v
                        else:
                            sim.count("report_same_step_ignored")
                        if t["iv"] and step < max(t["iv"]):
                            sim.count("report_out_of_order")
                        G["reports"] += 1
                        sim.note("report", w, num, step, repr(v))
                        if op.get("fail_write") and step not in failed_writes.setdefault(num, set()):
                            # connection lost during the write of this report: report() raises,
                            # nothing is stored; the objective then reports the value again
                            from optuna.exceptions import StorageInternalError as _SIE

                            failed_writes[num].add(step)

                            def _boom(*a_: Any, **k_: Any) -> None:
                                raise _SIE("injected: connection lost while storing an intermediate value")

                            if dep.server is not None:
                                # behind the proxy: the connection is reset before the request
                                # is delivered (the client's own error handling runs)
                                import grpc as _grpc

                                armed = [True]

                                def _reset(task_: str, method_: str, phase_: str) -> bool:
                                    if armed[0] and method_ == "SetTrialIntermediateValue" and phase_ == "pre" and task_ == sim.cur.name:
                                        armed[0] = False
                                        return True
                                    return False

                                prev_fault = dep.server.fault
                                dep.server.fault = _reset
                                try:
                                    try:
                                        cur.report(v, step)
                                    except _grpc.RpcError:
                                        sim.count("fault:report_write_fails")
                                finally:
                                    dep.server.fault = prev_fault
                            else:
                                tgt = cur.storage
                                tgt.set_trial_intermediate_value = _boom
                                try:
                                    try:
                                        cur.report(v, step)
                                    except _SIE:
                                        sim.count("fault:report_write_fails")
                                finally:
                                    tgt.__dict__.pop("set_trial_intermediate_value", None)
                        call("report", num, cur.report, v, step)
                    elif k == "sp":
                        infl, ep = G["complete_inflight"], G["epoch"]
                        sp = call("should_prune", num, cur.should_prune)
                        check_sp(w, num, sp, infl, ep)
                        last_sp = bool(sp)
                        if last_sp and op.get("obey", True) and G["verdict"] is None:
                            sim.seam("step")
                            G["n_finished_upper"] += 1
                            ft = call("tell", num, study.tell, cur, state=TrialState.PRUNED)
                            t["state"] = ft.state.name
                            sim.count("told_pruned")
                            cur = None
                    elif k == "tell":
                        state = op.get("state", "COMPLETE")
                        G["n_finished_upper"] += 1
                        if state == "COMPLETE":
                            G["complete_inflight"] += 1
                            G["epoch"] += 1
                            try:
                                ft = call("tell", num, study.tell, cur, float(op.get("value", 0.0)))
                            finally:
                                G["complete_inflight"] -= 1
                                G["epoch"] += 1
                        else:
                            ft = call("tell", num, study.tell, cur, state=TrialState.FAIL if state == "FAIL" else TrialState.PRUNED)
                        t["state"] = ft.state.name
                        sim.note("tell", w, num, t["state"])
                        cur = None
                if cur is not None:
                    sim.count("worker_left_running")
            except _Abort:
                return
            finally:
                if hasattr(st, "remove_session"):
                    try:
                        st.remove_session()
                    except sched.SimKilled:
                        raise
                    except Exception:
                        pass

        return body

    tasks = []
    for n, w in sorted(plan["workers"].items()):
        tasks.append(sim.spawn(procs[w["proc"]], n, make_task(n, w["ops"])))
    status = sim.run() if tasks else "ok"
    if status == "ok" and G["verdict"] is None and G["abort"] is None and failed_writes:
        # every value whose report() call returned must be in the storage (first report of a
        # step wins), also when an earlier attempt to store it had failed
        seams.set_sim(sim, dep.fs)
        try:
            stored = {tr.number: tr.intermediate_values for tr in study0.get_trials(deepcopy=False)}
        except Exception:  # noqa
            stored = {}
        for num_, steps_ in sorted(failed_writes.items()):
            for step_ in sorted(steps_):
                want = reg.get(num_, {}).get("iv", {}).get(step_)
                got = stored.get(num_, {}).get(step_)
                if want is not None and num_ in stored and not (got == want or (_isnan(want) and got is not None and _isnan(got))):
                    fail("report-lost", "a reported value is not in the storage", "trial %d step %d: report(%r) returned normally after an earlier attempt had failed with a storage error, but the storage holds %r" % (num_, step_, want, got))
    extra = {"should_prune_calls": G["sp"], "should_prune_true": G["sp_true"], "reports": G["reports"], "pruner:" + pname: 1}
    nontrivial = sim.switches > 0 and G["sp"] >= 3
    if G["verdict"] is not None:
        return common.result(sim, ch, "violation", G["verdict"][0], G["verdict"][1], nontrivial=nontrivial, extra_counters=extra)
    if status == "deadlock":
        why = "; ".join("%s blocked on %s" % (t.name, t.blocked_why) for t in tasks if not t.done)
        return common.result(sim, ch, "violation", prefix + "deadlock|" + pname, why, extra_counters=extra)
    if status == "stepcap":
        return common.result(sim, ch, "inconclusive", None, "step cap", extra_counters=extra)
    for t in tasks:
        if t.exc is not None and not isinstance(t.exc, sched.SimKilled):
            raise RuntimeError("task %s died: %r" % (t.name, t.exc)) from t.exc
    if G["abort"] is not None:
        return common.result(sim, ch, "inconclusive", None, G["abort"], extra_counters=extra)

    # ---- monitor 7: the bracket is a function of (study name, trial number) only
    if _has_kind(spec, "hyperband"):
        broken = hb_init_broken()
        if broken is not None:
            return common.result(sim, ch, "violation", prefix + "hyperband-init|" + pname + "|initialised more than once", "the HyperbandPruner object shared by the workers was initialised more than once, which changes the bracket of every trial: %s\n%s" % (broken, history_text(-1)), nontrivial=nontrivial, extra_counters=extra)
        v = _check_brackets(plan, sim, dep, pruners, study0, name)
        if v is not None:
            return common.result(sim, ch, "violation", prefix + "bracket|" + pname + "|" + v[0], v[1], nontrivial=nontrivial, extra_counters=extra)
    return common.result(sim, ch, "ok", nontrivial=nontrivial, extra_counters=extra)


def _check_brackets(plan: dict, sim: Any, dep: Any, pruners: list[Any], study0: Any, name: str) -> tuple[str, str] | None:
    import optuna
    from optuna.storages import InMemoryStorage
    from optuna.trial import TrialState

    obs = dep.observer()
    try:
        sid = obs.get_study_id_from_name(name)
        main_trials = obs.get_all_trials(sid, deepcopy=False)
    finally:
        if hasattr(obs, "remove_session"):
            obs.remove_session()
    if not main_trials:
        return None
    # reference: another storage class, another id offset, another history
    ref_st = InMemoryStorage()
    d = ref_st.create_new_study([optuna.study.StudyDirection.MINIMIZE], "decoy")
    for _ in range(int(plan.get("decoy_trials", 0)) + 2):
        ref_st.create_new_trial(d)
    ref_study = optuna.create_study(storage=ref_st, study_name=name, direction="maximize" if plan["direction"] == "minimize" else "minimize")
    nmax = max(t.number for t in main_trials)
    for i in range(nmax + 1):
        ref_study.add_trial(optuna.trial.create_trial(state=TrialState.COMPLETE if i % 2 else TrialState.FAIL, value=float(i) if i % 2 else None, intermediate_values={0: float(i)}))
    ref_trials = {t.number: t for t in ref_study.get_trials(deepcopy=False)}

    def bracket(hb: Any, study: Any, t: Any) -> Any:
        try:
            return hb._get_bracket_id(study, t)
        except AssertionError:
            return "assertion-error"

    for pr in pruners:
        hb = _find_hyperband(pr)
        if hb is None or len(hb._pruners) == 0:
            continue
        # the reference answer comes from a *fresh* pruner object with the same (resolved)
        # parameters that has never seen this study's history - a pruner that memoises or
        # otherwise remembers what it answered before initialisation must not differ from it
        ref_hb = optuna.pruners.HyperbandPruner(min_resource=hb._min_resource, max_resource=hb._max_resource, reduction_factor=hb._reduction_factor, bootstrap_count=hb._bootstrap_count)
        ref_hb._try_initialization(ref_study)
        if len(ref_hb._pruners) == 0 or ref_hb._n_brackets != hb._n_brackets:
            continue
        # ... and the pruner object of the run, asked about a study with ANOTHER name, must
        # answer like a fresh pruner too (its answers for the first study must not stick)
        other = optuna.create_study(storage=ref_st, study_name=name + "-other", direction="minimize", load_if_exists=True)
        for i in range(len(other.get_trials(deepcopy=False)), min(nmax + 1, 12)):
            other.add_trial(optuna.trial.create_trial(state=TrialState.COMPLETE, value=float(i), intermediate_values={0: float(i)}))
        ref_hb2 = optuna.pruners.HyperbandPruner(min_resource=hb._min_resource, max_resource=hb._max_resource, reduction_factor=hb._reduction_factor, bootstrap_count=hb._bootstrap_count)
        ref_hb2._try_initialization(other)
        if len(ref_hb2._pruners) != 0 and ref_hb2._n_brackets == hb._n_brackets:
            for t2 in other.get_trials(deepcopy=False):
                a2 = bracket(hb, other, t2)
                b2 = bracket(ref_hb2, other, t2)
                sim.count("bracket_compared_other_study")
                sim.note("bracket2", t2.number, a2, b2)
                if a2 != b2:
                    return ("depends on the pruner object's past", "the run's pruner object puts trial number %d of study %r into bracket %r, a fresh pruner with the same parameters into bracket %r (after it had served study %r)" % (t2.number, name + "-other", a2, b2, name))
        for t in main_trials:
            a = bracket(hb, study0, t)
            b = bracket(ref_hb, ref_study, ref_trials[t.number])
            sim.count("bracket_compared")
            sim.note("bracket", t.number, a, b)
            if a != b:
                return ("differs between storages/histories", "study %r trial number %d (id %d on %s): bracket %r; same study name and number on a fresh in-memory storage (id %d): bracket %r; n_brackets=%r budgets=%r" % (name, t.number, t._trial_id, plan["cfg"]["deployment"], a, ref_trials[t.number]._trial_id, b, hb._n_brackets, hb._trial_allocation_budgets))
            if a == "assertion-error":
                return ("bracket function fails", "study %r trial number %d: _get_bracket_id hits its 'unreachable' assertion; n_brackets=%r budgets=%r total=%r (pruner initialised twice?)" % (name, t.number, hb._n_brackets, hb._trial_allocation_budgets, hb._total_trial_allocation_budget))
    return None
