"""Helpers shared by the checks."""
from __future__ import annotations

import random
from typing import Any

from simkit import sched

TRACE_STORAGE = (
    "optuna/storages/_in_memory.py",
    "optuna/storages/_cached_storage.py",
    "optuna/storages/journal/_storage.py",
    "optuna/storages/journal/_file.py",
    "optuna/storages/journal/_redis.py",
    "optuna/storages/_rdb/storage.py",
    "optuna/storages/_grpc/client.py",
    "optuna/storages/_grpc/servicer.py",
    "optuna/storages/_heartbeat.py",
    "optuna/storages/_callbacks.py",
)
TRACE_STUDY = (
    "optuna/study/study.py",
    "optuna/study/_optimize.py",
    "optuna/study/_tell.py",
    "optuna/trial/_trial.py",
)


def rng_for(seed: int, run: int, stream: str) -> random.Random:
    return random.Random("%d/%d/%s" % (seed, run, stream))


def make_chooser(plan: dict) -> sched.Chooser:
    s = plan["sched"]
    cfg = plan.get("cfg", {})
    if "table" in s:
        return sched.Chooser(None, s["table"])
    ch = sched.Chooser(random.Random(s["seed"]), None, p_line=cfg.get("p_line", 0.02), p_seam=cfg.get("p_seam", 0.2))
    # swarm over scheduling policies: a quarter of the runs use the PCT-style policy
    # (random task priorities, d in {1,2,3} priority-change points in the first L yield points)
    policy = cfg.get("policy")
    if policy is None:
        policy = "pct" if s["seed"] % 4 == 0 else "rw"
    if policy == "pct":
        r = random.Random(s["seed"] ^ 0x5EED)
        ch.enable_pct(r.choice([1, 2, 2, 3]), r.choice([40, 200, 1000, 5000]))
    return ch


def result(sim: Any, ch: sched.Chooser, status: str, signature: str | None = None, detail: str = "", nontrivial: bool | None = None, extra_counters: dict | None = None, recorded_extra: dict | None = None) -> dict:
    counters = dict(sim.counters)
    if extra_counters:
        for k, v in extra_counters.items():
            counters[k] = counters.get(k, 0) + v
    rec = {"table": dict(ch.recorded)}
    if recorded_extra:
        rec.update(recorded_extra)
    return {
        "status": status,
        "signature": signature,
        "detail": detail,
        "digest": sim.hexdigest(),
        "nontrivial": (sim.switches > 0) if nontrivial is None else nontrivial,
        "counters": counters,
        "sim_seconds": sim.now - sim.t0,
        "steps": sim.seq + sim.line_events,
        "switches": sim.switches,
        "recorded": rec,
    }


def weighted(rng: random.Random, items: list[tuple[Any, float]]) -> Any:
    tot = sum(w for _, w in items)
    r = rng.random() * tot
    for v, w in items:
        r -= w
        if r <= 0:
            return v
    return items[-1][0]
