"""C19 - stale-trial recovery fails and retries each dead trial at most once.

2-4 worker processes (RDBStorage or _CachedStorage on one SQLite file, heartbeats on,
RetryFailedTrialCallback wrapped by a recorder) run study.optimize on an objective that
sleeps on the virtual clock while the simulated heartbeat thread beats.  Faults: worker
processes are killed at a chosen seam call - inside the objective, inside the sweep
(between the stale query and the FAIL, between FAIL and callback, inside the callback's
add_trial), inside ask - with pre-emption at every line of _heartbeat.py/_callbacks.py and
every SQL statement, so sweepers race.  Some trials are created by plain ask() without a
heartbeat, some are finished.

Oracle over the recorded history and the final database: per trial at most one FAIL
transition returned True, the failure callback ran at most once, at most one retry trial
names it as retry_history[-1], chains are no longer than max_retry, a retry carries the
original params/distributions/user attrs and a correct failed_trial/retry_history;
trials without heartbeat row, trials of live workers and finished trials are never touched
by a sweep; bounded liveness: a sweep started more than grace_period after the last crash
leaves every heart-beating trial of a dead worker FAIL.
"""
from __future__ import annotations

import json
from typing import Any

from checks import common
from simkit import deploy, sched, seams

ID = "C19"
LEVEL = "fault_enumeration"
BUDGET = {"quick": 55, "thorough": 900}

EVIDENCE = {
    "rule": "one case = one simulated execution of 2-4 worker processes with 0-2 injected process crashes at sampled points (region: objective / sweep / callback / ask / anywhere, n-th seam call inside it) plus a final late sweep; non-trivial = at least one crash fired and at least one trial was failed by a sweep; distinct = distinct event-order digests. Per-region fired counters are in faults_and_probes_fired (crash@<region>).",
    "assumptions": [
        "SQLite's database clock (func.now / current_timestamp) is the simulated process's clock (sim_now() UDF); no clock skew between processes in runs that evaluate liveness",
        "time only advances when nothing is runnable (plus a 1 s early-wake budget), so a live worker's heartbeat is never late by accident: every FAIL of a live worker's trial is a real violation",
        "heartbeat stalls of live workers are not injected (a stalled-but-alive worker legitimately loses its trial)",
        "stratified sampling of crash points, not exhaustive enumeration",
    ],
    "components": {"real": "optuna.storages._heartbeat (fail_stale_trials, HeartbeatThread), RetryFailedTrialCallback, RDBStorage/_CachedStorage heartbeat SQL, Study.optimize/_run_trial, SQLAlchemy, sqlite3", "stub": "threads/events of the heartbeat, clocks incl. the database clock, process death, OS scheduler, SQLite busy handler"},
}

_HOOKS: dict[str, Any] = {}


def _make_recorder() -> Any:
    return _HOOKS["Recorder"]()


REGIONS = ["objective", "objective", "objective", "sweep", "sweep", "callback", "ask", "any"]


def gen_plan(seed: int, run: int, tier: str) -> dict:
    rng = common.rng_for(seed, run, "work")
    frng = common.rng_for(seed, run, "fault")
    nworkers = rng.choice([2, 2, 3, 3, 4])
    hb = rng.choice([1, 1, 2, 5])
    grace = rng.choice([None, 2 * hb + 1, 3 * hb, 10 * hb])
    max_retry = rng.choice([None, 0, 1, 2, 3])
    workers: dict[str, dict] = {}
    for i in range(nworkers):
        trials = [{"dur": rng.choice([0.3, 1.0, 2.5, 4.0, 7.0]) * hb, "attr": "w%d-%d" % (i, k), "x": round(rng.random(), 6), "end": rng.choice(["ok", "ok", "ok", "raise"])} for k in range(rng.randint(1, 3))]
        # wall-clock skew of the worker's host against the database clock (heartbeats and the
        # staleness test use the database clock, so this must not matter)
        workers["w%d" % i] = {"trials": trials, "plain_asks": 1 if rng.random() < 0.3 else 0, "start_delay": rng.choice([0.0, 0.0, 0.5, 2.0]) * hb, "skew": rng.choice([0.0, 0.0, 0.0, 3600.0, -3600.0, 90000.0])}
    faults = []
    nf = rng.choice([0, 1, 1, 1, 1, 1, 2, 2])
    for v in rng.sample(sorted(workers), min(nf, nworkers - 1)):
        region = frng.choice(REGIONS)
        faults.append({"victim": v, "region": region, "nth": frng.choice([0, 1, 2, 3, 5, 8, 13, 21]) if region != "any" else frng.randrange(0, 250)})
    # several workers die inside their objectives: one sweep then meets several stale trials
    # and racing sweepers win some of them each
    if nworkers >= 3 and rng.random() < 0.35:
        faults = [{"victim": v, "region": "objective", "nth": frng.choice([0, 1, 2, 3, 5])} for v in rng.sample(sorted(workers), nworkers - 1)]
    # a stalled (but alive) worker: its heartbeat thread hangs for longer than the grace period
    # while its objective keeps running; its trial is legitimately failed by a sweeper - the
    # at-most-once clauses must still hold
    if rng.random() < 0.25:
        live = [w for w in sorted(workers) if w not in {f["victim"] for f in faults}]
        if live:
            v = rng.choice(live)
            g = (grace if grace is not None else 2 * hb)
            faults.append({"victim": v, "region": "stall", "nth": frng.choice([1, 1, 2, 3]), "dur": g + rng.choice([1, 2, 5]) * hb})
            for t in workers[v]["trials"]:
                t["dur"] = max(t["dur"], g + 8 * hb)
    # a short stall of a live worker's heartbeat thread: longer than 2 x interval but well
    # inside an explicitly configured longer grace period - nobody may touch its trial
    if grace is not None and grace >= 10 * hb and rng.random() < 0.5:
        live = [w for w in sorted(workers) if w not in {f["victim"] for f in faults}]
        if live:
            v = rng.choice(live)
            d = rng.choice([2.5, 4.0, 6.0]) * hb
            faults.append({"victim": v, "region": "stall", "nth": frng.choice([1, 1, 2]), "dur": d, "short": True})
            for t in workers[v]["trials"]:
                t["dur"] = max(t["dur"], d + 4 * hb)
    cfg = {
        "deployment": rng.choice(["rdb", "cached"]),
        # workers and sweepers may hold a storage object that went through pickle (spawned
        # process, joblib/dask worker): it must behave like the original
        "pickled_storages": rng.random() < 0.3,
        # an earlier study with beating trials was deleted before this one was created (SQLite
        # hands its trial ids out again): nothing of it may stick to the new trials
        "prehistory": rng.choice([0, 0, 2, 3]),
        # trials put in the queue beforehand: whoever runs them (first, or as a retry after
        # its worker died between two suggest calls) must get the enqueued values
        "enqueued": [{"x": round(0.1 + 0.2 * i + 0.001 * rng.randint(0, 99), 6), "c": rng.choice(["a", "b"])} for i in range(rng.choice([0, 0, 1, 2]))],
        "heartbeat_interval": hb,
        "grace_period": grace,
        "max_retry": max_retry,
        "inherit_iv": rng.random() < 0.3,
        "p_line": rng.choice([0.0, 0.02, 0.1]),
        "p_seam": rng.choice([0.05, 0.2, 0.5]),
        "busy_timeout": 120.0,
        "late_sweepers": rng.choice([1, 2, 2, 3]),
        # every SQL statement / seam call takes a few microseconds of virtual time, so the
        # database clock moves between two statements of one sweep
        "tick": rng.choice([0.0, 2e-5, 2e-5, 1e-4]),
        # how long after the last event the late sweep starts: just over the grace period, or days
        "late_delay": rng.choice(["grace", "grace", "grace", "day", "days"]),
    }
    # a late sweeper dies in the middle of its sweep or inside the failure callback (after it
    # has failed the trial, before/while the retry is enqueued) while another one races it
    if cfg["late_sweepers"] >= 2 and any(f["region"] == "objective" for f in faults) and rng.random() < 0.5:
        lreg = frng.choice(["callback", "callback", "callback", "sweep"])
        faults.append({"victim": "late*", "region": lreg, "nth": frng.choice([0, 0, 0, 1, 2, 3, 4, 6] if lreg == "callback" else [0, 1, 2, 3, 5, 8, 13])})
    if cfg["late_sweepers"] >= 2 and not any(f["victim"] == "late*" for f in faults) and rng.random() < 0.3:
        # one of the racing late sweepers meets a failing UPDATE (lock timeout, lost
        # connection): its sweep ends with StorageInternalError; at-most-once must still hold
        cfg["sweep_sql_fault"] = {"sweeper": "late%d" % rng.randrange(cfg["late_sweepers"]), "nth": rng.choice([0, 0, 1, 2])}
    return {"check": ID, "seed": seed, "run": run, "cfg": cfg, "workers": workers, "faults": faults, "sched": {"seed": rng.getrandbits(48)}}


def shrink_paths(plan: dict) -> list[tuple]:
    return [("workers", n, "trials") for n in plan["workers"]] + [("faults",), ("sched", "table")]


def signature_class(sig: str) -> str:
    return "|".join(sig.split("|")[:3])


def sample_view(plan: dict, res: dict) -> dict:
    return {"cfg": plan["cfg"], "workers": {n: {"trials": len(w["trials"]), "plain_asks": w["plain_asks"]} for n, w in plan["workers"].items()}, "faults": plan["faults"], "switches": res["switches"]}


def run_plan(plan: dict) -> dict:
    cfg = plan["cfg"]
    ch = common.make_chooser(plan)
    trace = ("optuna/storages/_heartbeat.py", "optuna/storages/_callbacks.py") + (("optuna/storages/_rdb/storage.py", "optuna/storages/_cached_storage.py") if cfg.get("p_line", 0) >= 0.1 else ())
    sim = sched.Sim(ch, trace_suffixes=trace if cfg.get("p_line", 0) > 0 else (), max_steps=400000, uuid_salt=str(plan.get("run", 0)), tick=cfg.get("tick", 0.0))
    dep = deploy.Deployment(sim, cfg["deployment"], dict(cfg, heartbeat_interval=None, grace_period=None))
    try:
        return _run(plan, sim, ch, dep)
    finally:
        dep.close()


def _run(plan: dict, sim: sched.Sim, ch: sched.Chooser, dep: deploy.Deployment) -> dict:
    import optuna
    from optuna.exceptions import StorageInternalError
    from optuna.storages import RetryFailedTrialCallback, _CachedStorage
    from optuna.storages import _heartbeat as hbmod
    from optuna.trial import TrialState

    cfg = plan["cfg"]
    kind = cfg["deployment"]
    prefix = "%s|%s|" % (ID, kind)
    hb, grace = cfg["heartbeat_interval"], cfg["grace_period"]
    eff_grace = grace if grace is not None else 2 * hb
    events: list[tuple] = []  # (kind, ...)
    region: dict[str, list[str]] = {}
    counts: dict[tuple, int] = {}
    crashes: list[dict] = []
    faults = [dict(f) for f in plan.get("faults", []) if f["victim"] in plan["workers"] or f["victim"].startswith("late")]

    def task_root(name: str) -> str:
        return name.split("/")[0].rstrip("+")

    def cur_region(name: str) -> str:
        st = region.get(name) or []
        return st[-1] if st else "other"

    def fault_hook(task: Any, skind: str, detail: str) -> None:
        name = task.name
        root = task_root(name)
        if "/" in name:
            return  # heartbeat thread: dies with its process, never the trigger
        reg = cur_region(name)
        for f in faults:
            if f.get("fired") or f["region"] == "stall":
                continue
            if f["victim"] == "late*":
                # whichever late sweeper gets there first (one of them always survives)
                if not root.startswith("late"):
                    continue
            elif f["victim"] != root:
                continue
            if f["region"] != "any" and f["region"] != reg:
                continue
            key = (f["victim"], f["region"])
            counts[key] = counts.get(key, 0) + 1
            if counts[key] - 1 != f["nth"]:
                continue
            f["fired"] = True
            crashes.append({"victim": root, "region": reg, "at": skind + ":" + detail, "t": sim.now - sim.t0})
            sim.count("crash@" + reg)
            sim.note("crash", root, reg)
            sim.crash(task.proc)
            return

    sim.fault_hook = fault_hook

    class Recorder:
        """failed_trial_callback: records, then runs the real RetryFailedTrialCallback."""

        def __reduce__(self) -> Any:
            return (_make_recorder, ())

        def __init__(self) -> None:
            self.inner = RetryFailedTrialCallback(max_retry=cfg["max_retry"], inherit_intermediate_values=cfg.get("inherit_iv", False))

        def __call__(self, study: Any, trial: Any) -> None:
            name = sim.cur.name if sim.in_task() else "harness"
            events.append(("callback", trial.number, task_root(name)))
            region.setdefault(name, []).append("callback")
            try:
                self.inner(study, trial)
            finally:
                region[name].pop()

    _HOOKS["Recorder"] = Recorder
    beat_ids: set = set()
    beats: dict[str, int] = {}
    stalled: set = set()
    procs = {n: sim.proc("P" + n, skew=float(plan["workers"][n].get("skew", 0.0))) for n in sorted(plan["workers"])}
    boot = sim.proc("BOOT")

    def make_storage(proc: Any) -> Any:
        st = dep.db.new_storage(proc, cfg, heartbeat_interval=hb, grace_period=grace, failed_trial_callback=Recorder())
        if cfg.get("pickled_storages") and proc is not boot:
            import pickle

            with sim.atomic():
                st = pickle.loads(pickle.dumps(st))
            dep.db.storages.append(st)
            sim.count("storage_through_pickle")
        # record every FAIL transition that returns True
        orig = st.set_trial_state_values

        def set_trial_state_values(trial_id: int, state: Any, values: Any = None) -> bool:
            r = orig(trial_id, state, values)
            if state == TrialState.FAIL and r:
                name = sim.cur.name if sim.in_task() else "harness"
                events.append(("fail", trial_id, task_root(name), cur_region(name)))
            return r

        st.set_trial_state_values = set_trial_state_values  # type: ignore[method-assign]
        orig_beat = st.record_heartbeat

        def record_heartbeat(trial_id: int) -> None:
            name = sim.cur.name if sim.in_task() else "harness"
            root = task_root(name)
            for f in faults:
                if f["region"] == "stall" and f["victim"] == root and not f.get("fired"):
                    beats[root] = beats.get(root, 0) + 1
                    if beats[root] - 1 == f["nth"]:
                        f["fired"] = True
                        if not f.get("short"):
                            stalled.add(root)
                        else:
                            sim.count("stall_heartbeat_short")
                        sim.count("stall_heartbeat")
                        sim.note("stall", root, f["dur"])
                        sim.sleep(f["dur"])  # the heartbeat thread hangs; the worker lives on
            orig_beat(trial_id)
            beat_ids.add(trial_id)  # a heartbeat row really exists from now on

        st.record_heartbeat = record_heartbeat  # type: ignore[method-assign]
        dep._closers.append(lambda: st.__dict__.pop("record_heartbeat", None))
        # the RDBStorage objects are pooled across runs: take the wrapper off again
        dep._closers.append(lambda: st.__dict__.pop("set_trial_state_values", None))
        return _CachedStorage(st) if kind == "cached" else st

    st0 = make_storage(boot)
    if cfg.get("prehistory"):
        from optuna.study import StudyDirection

        rdb0 = getattr(st0, "_backend", st0)
        old = st0.create_new_study([StudyDirection.MINIMIZE], "old")
        for _ in range(int(cfg["prehistory"])):
            type(rdb0).record_heartbeat(rdb0, st0.create_new_trial(old))
        st0.delete_study(old)
        sim.count("prehistory_deleted_study_with_heartbeats")
    study0 = optuna.create_study(storage=st0, study_name="hb", sampler=optuna.samplers.RandomSampler(seed=0))
    for fp in cfg.get("enqueued", []):
        study0.enqueue_trial(dict(fp))
        sim.count("enqueued_before_start")
    st0.remove_session()
    # the sweep region marker
    orig_sweep = hbmod.fail_stale_trials

    def fail_stale_trials(study: Any) -> None:
        name = sim.cur.name if sim.in_task() else "harness"
        region.setdefault(name, []).append("sweep")
        try:
            return orig_sweep(study)
        finally:
            region[name].pop()

    owner: dict[int, str] = {}  # trial number -> worker that asked it
    has_hb: set = set()  # trial numbers with a recorded heartbeat row (filled at the end from beat_ids)
    asked_params: dict[int, dict] = {}
    verdict: list[tuple[str, str]] = []

    def make_worker(name: str, w: dict) -> Any:
        def body() -> None:
            if w.get("start_delay"):
                sim.sleep(w["start_delay"])
            st = make_storage(procs[name])
            study = optuna.load_study(study_name="hb", storage=st, sampler=optuna.samplers.RandomSampler(seed=len(name)))
            idx = [0]

            def objective(trial: Any) -> float:
                region[name].append("objective")
                try:
                    spec = w["trials"][idx[0] % len(w["trials"])] if w["trials"] else {"dur": 1.0, "attr": "x", "x": 0.5, "end": "ok"}
                    idx[0] += 1
                    owner[trial.number] = name
                    x = trial.suggest_float("x", 0.0, 1.0)
                    c = trial.suggest_categorical("c", ["a", "b"])
                    if "attr" not in trial.user_attrs:
                        trial.set_user_attr("attr", spec["attr"])
                    trial.report(x, 0)
                    asked_params[trial.number] = {"x": x, "c": c}
                    sim.note("objective", name, trial.number)
                    sim.sleep(spec["dur"])
                    if spec["end"] == "raise":
                        raise ValueError("objective failed")
                    return x
                finally:
                    region[name].pop()

            region[name] = ["other"]
            for _ in range(w.get("plain_asks", 0)):
                region[name].append("ask")
                try:
                    t = study.ask()
                finally:
                    region[name].pop()
                owner[t.number] = name
                sim.note("plain_ask", name, t.number)
            hbmod.fail_stale_trials = fail_stale_trials
            optuna.storages.fail_stale_trials = fail_stale_trials
            orig_ask = study.ask

            def ask(*a: Any, **k: Any) -> Any:
                region[name].append("ask")
                try:
                    return orig_ask(*a, **k)
                finally:
                    region[name].pop()

            study.ask = ask  # type: ignore[method-assign]
            try:
                study.optimize(objective, n_trials=len(w["trials"]), catch=(ValueError,))
            except sched.SimKilled:
                raise
            except Exception as e:  # noqa
                if procs[name].dead:
                    raise sched.SimKilled()  # an exception of the dying process's own unwinding
                if name in stalled:
                    sim.count("obs_stalled_worker_lost_its_trial")  # legitimate: it was failed while stalled
                    st.remove_session()
                    return
                verdict.append((prefix + "optimize-raised|" + type(e).__name__, "%s: optimize raised %r" % (name, e)))
            st.remove_session()

        return body

    saved = (hbmod.fail_stale_trials, optuna.storages.fail_stale_trials)
    try:
        tasks = [sim.spawn(procs[n], n, make_worker(n, w)) for n, w in sorted(plan["workers"].items())]
        status = sim.run()
        if status == "deadlock":
            return common.result(sim, ch, "violation", prefix + "deadlock", "; ".join("%s blocked on %s" % (t.name, t.blocked_why) for t in sim.tasks if not t.done and not t.daemon))
        if status == "stepcap":
            return common.result(sim, ch, "inconclusive", None, "step cap")
        for t in tasks:
            if t.exc is not None and not isinstance(t.exc, sched.SimKilled):
                raise RuntimeError("task %s died: %r" % (t.name, t.exc)) from t.exc
        # late sweeper: starts more than grace after everything, must fail every dead worker's beating trial
        # (several, so that they race for the same stale trials)
        def late_body(lname: str, lproc: Any) -> Any:
            def body() -> None:
                extra = {"grace": 0.0, "day": 86400.0 - hb - 1.0 + eff_grace / 2.0, "days": 3 * 86400.0 + eff_grace / 2.0}[cfg.get("late_delay", "grace")]
                sim.sleep(eff_grace + hb + 1.0 + extra)
                st = make_storage(lproc)
                study = optuna.load_study(study_name="hb", storage=st)
                region[lname] = ["other"]
                try:
                    fail_stale_trials(study)
                except StorageInternalError:
                    if not (ssf and ssf.get("fired") and ssf["sweeper"] == lname):
                        raise
                    sim.count("sweep_ended_by_sql_error")
                st.remove_session()

            return body

        ssf = dict(cfg["sweep_sql_fault"]) if cfg.get("sweep_sql_fault") else None
        if ssf:
            nupd = [0]

            def sql_fault(task: Any, skind: str, word: str) -> bool:
                if task is None or task.name != ssf["sweeper"] or skind != "sql.exec" or word != "UPDATE" or ssf.get("fired"):
                    return False
                nupd[0] += 1
                if nupd[0] - 1 == ssf["nth"]:
                    ssf["fired"] = True
                    return True
                return False

            dep.db.fault = sql_fault
        lts = []
        for i in range(int(cfg.get("late_sweepers", 1))):
            lp = sim.proc("PLATE%d" % i, skew=[0.0, 7200.0, -7200.0][i % 3])
            lts.append(sim.spawn(lp, "late%d" % i, late_body("late%d" % i, lp)))
        status = sim.run()
        if status != "ok":
            return common.result(sim, ch, "violation" if status == "deadlock" else "inconclusive", prefix + "deadlock-late", status)
        for lt in lts:
            if lt.exc is not None and not isinstance(lt.exc, sched.SimKilled):
                raise RuntimeError("late sweeper died: %r" % (lt.exc,)) from lt.exc
    finally:
        hbmod.fail_stale_trials, optuna.storages.fail_stale_trials = saved
    fired = len(crashes)
    # ------------------------------------------------------------------ oracle
    seams.set_sim(sim, dep.fs)
    obs = dep.observer()
    sid = obs.get_study_id_from_name("hb")
    trials = obs.get_all_trials(sid, deepcopy=False)
    by_id = {t._trial_id: t for t in trials}
    by_num = {t.number: t for t in trials}
    has_hb.update(by_id[i].number for i in beat_ids if i in by_id)
    # a heartbeat thread killed right after its commit never reported back: read the table itself
    import sqlalchemy

    with obs.engine.connect() as conn:
        for (tid,) in conn.execute(sqlalchemy.text("SELECT trial_id FROM trial_heartbeats")):
            if tid in by_id:
                has_hb.add(by_id[tid].number)
    obs.remove_session()
    swept = sum(1 for e in events if e[0] == "fail" and e[3] == "sweep")
    nontrivial = fired > 0 and swept > 0

    def viol(cls: str, detail: str) -> dict:
        return common.result(sim, ch, "violation", prefix + cls, detail + "\n  crashes: %r\n  events: %r" % (crashes, events[-20:]), nontrivial=nontrivial)

    if verdict:
        return viol(verdict[0][0][len(prefix) :], verdict[0][1])
    fails: dict[int, list] = {}
    for e in events:
        if e[0] == "fail":
            fails.setdefault(e[1], []).append(e)
    for tid, es in sorted(fails.items()):
        if len(es) > 1:
            return viol("failed-twice", "trial id %d was moved to FAIL (returning True) %d times: %r" % (tid, len(es), es))
    cbs: dict[int, list] = {}
    for e in events:
        if e[0] == "callback":
            cbs.setdefault(e[1], []).append(e)
    for num, es in sorted(cbs.items()):
        if len(es) > 1:
            return viol("callback-twice", "failure callback ran %d times for trial number %d: %r" % (len(es), num, es))
    dead = {c["victim"] for c in crashes}
    # trials failed by a sweep must belong to dead workers and must have had a heartbeat
    for tid, es in sorted(fails.items()):
        e = es[0]
        if e[3] != "sweep":
            continue
        t = by_id.get(tid)
        if t is None:
            continue
        own = owner.get(t.number)
        if t.number not in has_hb:
            return viol("touched-trial-without-heartbeat", "trial number %d never had a heartbeat but was failed by %s's sweep" % (t.number, e[2]))
        if own is not None and own not in dead and own not in stalled:
            return viol("failed-live-workers-trial", "trial number %d of live worker %s was failed by %s's sweep" % (t.number, own, e[2]))
    # retries
    retried_from: dict[int, list] = {}
    for t in trials:
        hist = t.system_attrs.get("retry_history")
        if hist:
            retried_from.setdefault(hist[-1], []).append(t)
    for num, ts in sorted(retried_from.items()):
        if len(ts) > 1:
            return viol("retried-twice", "trial number %d has %d retry trials: %r" % (num, len(ts), [x.number for x in ts]))
        r = ts[0]
        src = by_num.get(num)
        hist = r.system_attrs["retry_history"]
        if cfg["max_retry"] is not None and len(hist) > cfg["max_retry"]:
            return viol("chain-too-long", "retry trial %d has history %r, max_retry=%r" % (r.number, hist, cfg["max_retry"]))
        if src is None or src.state != TrialState.FAIL:
            return viol("retry-of-unfailed-trial", "trial %d retries %d whose state is %s" % (r.number, num, src.state.name if src else None))
        if r.system_attrs.get("failed_trial") != hist[0]:
            return viol("bad-retry-history", "trial %d: failed_trial=%r, retry_history=%r" % (r.number, r.system_attrs.get("failed_trial"), hist))
        prev = src.system_attrs.get("retry_history", [])
        if hist[:-1] != prev:
            return viol("bad-retry-history", "trial %d has history %r but its source %d has %r" % (r.number, hist, num, prev))
        for k, v in src.params.items():
            if r.params.get(k) != v or r.distributions.get(k) != src.distributions.get(k):
                return viol("retry-params-differ", "retry %d: %s=%r, original %r" % (r.number, k, r.params.get(k), v))
        if src.system_attrs.get("fixed_params") != r.system_attrs.get("fixed_params"):
            return viol("retry-lost-enqueued-values", "trial %d was enqueued with %r; its retry %d carries %r" % (num, src.system_attrs.get("fixed_params"), r.number, r.system_attrs.get("fixed_params")))
        for k, v in src.user_attrs.items():
            if r.user_attrs.get(k) != v:
                return viol("retry-attrs-differ", "retry %d: user attr %s=%r, original %r" % (r.number, k, r.user_attrs.get(k), v))
        if num not in cbs:
            return viol("retry-without-callback", "trial %d has a retry but the callback was never recorded" % num)
    for t in trials:
        fp = t.system_attrs.get("fixed_params")
        if fp:
            for k, v in t.params.items():
                if k in fp and fp[k] != v:
                    return viol("enqueued-value-not-used", "trial %d: enqueued %s=%r, got %r" % (t.number, k, fp[k], v))
    # a callback that ran (and was allowed to retry) but whose caller survived must have produced the retry
    # finished trials are never touched: a COMPLETE trial keeps its values
    for t in trials:
        if t.state == TrialState.COMPLETE and (t.values is None or len(t.values) != 1):
            return viol("finished-trial-changed", "trial %d COMPLETE with values %r" % (t.number, t.values))
    # bounded liveness: after the late sweep no beating trial of a dead worker is RUNNING
    for t in trials:
        if t.state == TrialState.RUNNING and t.number in has_hb and owner.get(t.number) in dead:
            return viol("stale-trial-not-failed", "trial %d of dead worker %s is still RUNNING after a sweep that started %.1fs after the last event (grace %.1fs)" % (t.number, owner.get(t.number), eff_grace + hb + 1.0, eff_grace))
        if t.state == TrialState.RUNNING and owner.get(t.number) is not None and owner.get(t.number) not in dead and owner.get(t.number) not in stalled and t.number in has_hb:
            return viol("live-trial-left-running", "trial %d of worker %s (alive, optimize returned) is RUNNING" % (t.number, owner.get(t.number)))
    return common.result(sim, ch, "ok", nontrivial=nontrivial, extra_counters={"crashes_fired": fired, "swept_fail": swept, "callbacks": len([e for e in events if e[0] == "callback"]), "retries": len(retried_from)})
