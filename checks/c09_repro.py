"""C09 - reproducible from the seed, independent of the storage.

One case = one generated deterministic define-by-run objective *program* (conditional
branches on earlier suggestions, reports followed by `trial.should_prune()`, deterministic
failures, NaN returns, user attrs), one seeded sampler configuration, one pruner
configuration, one direction list, a trial budget and a list of E *environments*.  The same
sequential optimisation is executed once per environment (each in its own Sim + Deployment).
Environments differ only in what must not matter: the deployment, studies/trials that
already exist in the storage (trial-id offsets; for `mem` the same InMemoryStorage object),
foreign trials created between optimize calls, the start of the virtual clock and clock jumps
(forwards and backwards) between optimize calls, the uuid stream, the gRPC server pool size,
journal knobs, and the split of `n_trials` into several `optimize` calls.  The study name,
the sampler/pruner configuration and the objective are equal everywhere.

Oracle (DESIGN.md, C09):
 1. the trace [(number, state, values, params, intermediate values)] read back from the study
    is bit-identical (float.hex) on a repeat in the *same* environment;
 2. it is bit-identical in every other environment;
 3. `optuna.copy_study` of the finished study into a second deployment reproduces every trial
    field (number, state, values, params, distributions, user attrs, system attrs,
    intermediate values, datetime_start, datetime_complete) and the study's directions and
    attrs, as seen by the copying client and by a fresh observer.

Admission self-check (DESIGN: "a sampler is admitted only if it repeats bit-identically twice
in the same environment"): if clause 1 fails and the first difference is numeric noise
(same state, same parameter names, same categorical values, numbers within 1e-6 relative) or the
sampler is torch based (GP), the run is `inconclusive` and counted as `excluded:<sampler>`
(BLAS/torch nondeterminism of the sandbox is not blamed on optuna).  A gross difference (what an
unseeded RNG produces) is a violation `C09|<sampler>|repeat-divergence|...`.

Signatures: `C09|<sampler>|env-divergence|<env a> vs <env b>|trial <n> <field>` etc.; the
sampler name is always the second field.
"""
from __future__ import annotations

import decimal
import hashlib
import json
import math
import os
import random
import traceback
import warnings
from typing import Any

from checks import common
from simkit import deploy, sched, seams

ID = "C09"
LEVEL = "exploration"
BUDGET = {"quick": 60, "thorough": 900}

# (kind, weight); SQLite-backed kinds cost 100-300 ms per run of the study, the others 10-40 ms
CHEAP = [
    ("mem", 3.0),
    ("jf-sym", 2.0),
    ("jf-open", 0.6),
    ("jr", 1.6),
    ("jr-cluster", 0.5),
    ("grpc(mem)", 2.0),
    ("grpc(jf-sym)", 1.4),
    ("grpc(jr)", 1.0),
]
SQLITE = [("rdb", 1.0), ("cached", 1.0), ("grpc(rdb)", 0.5), ("grpc(cached)", 0.4)]
SQLITE_INNER = {"rdb", "cached"}
ENV_IDS = "ABCDEFGH"
# Samplers whose behaviour depends on the ORDER of FrozenTrial.params/distributions.  The gRPC
# proxy carries both in protobuf map<> fields and rebuilds the dicts in map iteration order, which
# is unspecified (upb: a hash order that depends on heap addresses): the suggestion order is lost
# (genuine defect, known finding F17, signature kind `grpc-param-order`).  The iteration order is a
# seam of this check (_ProtoMapOrder: seeded per environment).  Half of the runs of these samplers
# avoid grpc(...) environments so that the rest of their behaviour is checked too;
# VERIF_C09_GRPC_ORDER=0 avoids them always.
ORDER_SENSITIVE = {"brute", "qmc"}

EVIDENCE = {
    "rule": "one case = one generated define-by-run program (<=8 parameter names, conditional blocks nested <=2 deep, reports+should_prune, deterministic failures/NaN, user attrs) x one seeded sampler configuration x one pruner configuration x 1-2 objectives x 3-4 environments (deployment, pre-existing studies/trials incl. deleted ones, foreign trials between calls, clock start and jumps, uuid salt, server pool, journal knobs, split of n_trials) + one same-environment repeat + one copy_study into a second deployment. Non-trivial = >=4 trials, >=2 environments compared of which >=1 has trial ids different from trial numbers; distinct = distinct digests of (sampler, pruner, environments, trace).",
    "assumptions": [
        "sequential only: one task, one optimize call at a time, n_jobs=1 (the property says sequential)",
        "the sampler and pruner objects live for the whole run; only the optimize calls are split (a re-created sampler restarts its RNG by definition)",
        "every parameter name keeps one distribution throughout a program",
        "clock jumps only between optimize calls (a backward jump inside a trial makes datetime_complete < datetime_start, which FrozenTrial validation rejects by design)",
        "BruteForceSampler/GridSampler get n_trials below the size of their space (an optimize call issued after exhaustion re-evaluates a point by design)",
        "trial timestamps and trial ids legitimately differ between environments; they are compared only in the copy_study clause (timestamps) or never (ids)",
        "same-environment repeat that differs only by numeric noise (or for the torch based GPSampler) -> run inconclusive, counter excluded:<sampler>; a gross difference is a violation",
        "PYTHONHASHSEED is pinned to 0 for the harness; the hash-seed axis re-runs the first environment in a fresh interpreter under another PYTHONHASHSEED in 10% of the thorough-tier runs and 4% of the quick-tier runs (five times as often for the set-based TPE variants; VERIF_C09_HASHSEED_RATE overrides the rate)",
        "copy_study: source and target deployments live in one simulation, therefore never both SQLite-backed, both journal-file-backed or both gRPC",
        "CMA-ES is not installed; GP is drawn at a low rate with <=7 trials (0.1 s per GP trial)",
    ],
    "components": {
        "real": "optuna Study.optimize/ask/tell, Trial.suggest_*/report/should_prune, all built-in samplers except CMA-ES (Random, TPE default/multivariate/group/constant_liar, NSGA-II, NSGA-III, QMC, GP, Grid, BruteForce, PartialFixed), all pruners (Nop, Median, Percentile, SuccessiveHalving, Hyperband, Patient, Threshold, Wilcoxon), copy_study/load_study, InMemoryStorage, JournalStorage (file: symlink/open lock, redis: single/cluster), RDBStorage on sqlite3 via SQLAlchemy, _CachedStorage, GrpcStorageProxy + servicer, numpy/scipy/torch",
        "stub": "OS scheduler/processes (simkit), journal file system (SimFS), redis (SimRedis), gRPC transport and server pool (SimNet), clocks, uuid, iteration order of protobuf map fields where the proxy builds FrozenTrials (seeded permutation instead of upb's address-dependent hash order)",
    },
}

NAMES = ["x", "y", "z", "n", "m", "c", "d", "k"]
CAT_POOL = ["a", "b", "c", None, 7, 2.5, True]


class _DetFail(Exception):
    """The objective's deterministic failure (caught by optimize(catch=...))."""


class _Return(Exception):
    def __init__(self, value: Any) -> None:
        self.value = value


class _HarnessBug(Exception):
    pass


def _kinds(pool: list[tuple[str, float]]) -> list[tuple[str, float]]:
    only = os.environ.get("VERIF_DEPLOYMENTS")
    if not only:
        return pool
    sel = [(k, w) for k, w in pool if k in only.split(",")]
    return sel


# ====================================================================== programs
def domain(spec: dict) -> list | None:
    """Finite list of external values of a spec, or None if it is continuous."""
    t = spec["t"]
    if t == "cat":
        return list(spec["choices"])
    if t == "int":
        if spec.get("log"):
            return list(range(spec["low"], spec["high"] + 1))
        return list(range(spec["low"], spec["high"] + 1, spec.get("step") or 1))
    if spec.get("step") is None:
        return None
    low = decimal.Decimal(str(spec["low"]))
    high = decimal.Decimal(str(spec["high"]))
    step = decimal.Decimal(str(spec["step"]))
    n = int((high - low) // step) + 1
    return [float(low + i * step) for i in range(n)]


def cat_index(choices: list, v: Any) -> int:
    for i, c in enumerate(choices):
        if type(c) is type(v) and c == v:
            return i
    for i, c in enumerate(choices):
        if c == v and not isinstance(c, bool) and not isinstance(v, bool):
            return i
    return -1


def contrib(spec: dict, v: Any, j: int) -> float:
    if spec["t"] == "cat":
        i = cat_index(spec["choices"], v)
        tab = spec.get("tab") or []
        return float(tab[i][j]) if 0 <= i < len(tab) else 0.0
    x = float(v)
    if spec.get("log"):
        x = math.log(x)
    w = float(spec.get("w", [1.0, 1.0])[j])
    if spec.get("sq"):
        return w * (x - float(spec.get("c", 0.0))) ** 2
    return w * x


def holds(cond: dict, params: dict, vals: dict) -> bool:
    name = cond.get("p")
    if name not in vals or name not in params:
        return False
    spec = params[name]
    v = vals[name]
    if spec["t"] == "cat":
        return cat_index(spec["choices"], v) in (cond.get("idx") or [])
    return float(v) < float(cond.get("v", 0.0))


def interpret(prog: dict, nobj: int, number: int, sug: Any, rep: Any = None, attr: Any = None) -> list[float]:
    """Run the program.  `sug(name, spec)` suggests, `rep(value, step)` reports and raises when
    the pruner says so, `attr(k, v)` sets a user attr.  The returned objective values are a
    function of the suggested parameters only."""
    params = prog.get("params", {})
    vals: dict[str, Any] = {}
    ctx = {"step": 0}

    def score(j: int) -> float:
        s = 0.0
        for name, v in vals.items():
            s += contrib(params[name], v, j)
        return s

    def block(actions: Any, depth: int) -> None:
        for act in actions or []:
            if not isinstance(act, dict):
                continue
            a = act.get("a")
            if a == "suggest":
                name = act.get("p")
                if name in params:
                    v = sug(name, params[name])
                    vals.setdefault(name, v)
            elif a == "if":
                if depth < 6:
                    block(act.get("then") if holds(act, params, vals) else act.get("else"), depth + 1)
            elif a == "report":
                if rep is not None and nobj == 1:
                    for _ in range(int(act.get("n", 1))):
                        st = ctx["step"]
                        ctx["step"] += int(act.get("stride", 1))
                        rep(score(0) + float(act.get("amp", 1.0)) / (1.0 + st), st)
            elif a == "attr":
                if attr is not None:
                    attr(str(act.get("k", "u")), act.get("v"))
            elif a == "fail":
                if rep is not None and number % int(act.get("mod", 1) or 1) == int(act.get("rem", 0)):
                    raise _DetFail("deterministic failure")
            elif a == "ret":
                raise _Return(act.get("v"))

    block(prog.get("body"), 0)
    return [score(j) for j in range(nobj)]


def count_leaves(prog: dict, cap: int = 300) -> int:
    """Number of distinct parameter combinations of a finite program (odometer enumeration)."""
    prefix: list[int] = []
    leaves = 0
    while True:
        sizes: list[int] = []
        pos = [0]
        seen: dict[str, Any] = {}

        def sug(name: str, spec: dict) -> Any:
            if name in seen:
                return seen[name]
            dom = domain(spec)
            if dom is None:
                raise _HarnessBug("continuous parameter in a finite program")
            i = pos[0]
            pos[0] += 1
            if i >= len(prefix):
                prefix.append(0)
            sizes.append(len(dom))
            seen[name] = dom[prefix[i]]
            return seen[name]

        try:
            interpret(prog, 1, 0, sug)
        except _Return:
            pass
        del prefix[pos[0] :]
        leaves += 1
        if leaves > cap:
            return leaves
        while prefix and prefix[-1] + 1 >= sizes[len(prefix) - 1]:
            prefix.pop()
        if not prefix:
            return leaves
        prefix[-1] += 1


def grid_of(prog: dict) -> dict:
    g = {}
    for name, spec in prog.get("params", {}).items():
        vals = spec.get("grid")
        if not vals:
            vals = domain(spec) or [spec["low"], spec["high"]]
        g[name] = list(vals)
    return g


# ---------------------------------------------------------------------- generation
def _gen_spec(rng: random.Random, finite: bool) -> dict:
    t = common.weighted(rng, [("float", 4.0), ("int", 3.0), ("cat", 3.0)])
    spec: dict[str, Any]
    if t == "cat":
        n = rng.choice([2, 2, 3, 3, 4])
        choices = rng.sample(CAT_POOL, n)
        spec = {"t": "cat", "choices": choices, "tab": [[round(rng.uniform(-1, 2), 3), round(rng.uniform(-1, 2), 3)] for _ in choices]}
        return spec
    if t == "int":
        r = rng.random()
        if r < 0.2:
            low = rng.choice([1, 2])
            spec = {"t": "int", "low": low, "high": low + rng.choice([2, 3, 6] if not finite else [1, 2, 3]), "step": 1, "log": True}
        elif r < 0.4:
            step = rng.choice([2, 3])
            low = rng.randint(-3, 3)
            spec = {"t": "int", "low": low, "high": low + step * rng.randint(1, 3) + rng.randint(0, step - 1), "step": step}
        elif r < 0.47:
            low = rng.randint(-2, 5)
            spec = {"t": "int", "low": low, "high": low, "step": 1}
        else:
            low = rng.randint(-3, 3)
            spec = {"t": "int", "low": low, "high": low + (rng.randint(1, 3) if finite else rng.choice([1, 3, 5, 10, 40])), "step": 1}
    else:
        r = rng.random()
        if finite or r < 0.25:
            step = rng.choice([0.5, 0.25, 0.1, 0.3])
            low = rng.choice([0.0, -0.5, 0.1, 1.0, -1.2])
            d = decimal.Decimal(str(low)) + decimal.Decimal(str(step)) * rng.randint(1, 3)
            if rng.random() < 0.3:
                d += decimal.Decimal(str(step)) * decimal.Decimal("0.5")
            spec = {"t": "float", "low": low, "high": float(d), "step": step}
        elif r < 0.45:
            low, high = rng.choice([(1e-3, 1.0), (0.5, 8.0), (1e-5, 1e2)])
            spec = {"t": "float", "low": low, "high": high, "step": None, "log": True}
        else:
            low, high = rng.choice([(-2.0, 2.0), (0.0, 1.0), (-5.0, 10.0), (0.1, 0.35), (100.0, 101.0)])
            spec = {"t": "float", "low": low, "high": high, "step": None}
    spec["w"] = [round(rng.uniform(-1.5, 1.5), 3), round(rng.uniform(-1.5, 1.5), 3)]
    spec["sq"] = rng.random() < 0.5
    lo = math.log(spec["low"]) if spec.get("log") else spec["low"]
    hi = math.log(spec["high"]) if spec.get("log") else spec["high"]
    spec["c"] = round(lo + (hi - lo) * rng.random(), 4)
    return spec


def _gen_cond(rng: random.Random, name: str, spec: dict) -> dict:
    if spec["t"] == "cat":
        n = len(spec["choices"])
        return {"p": name, "idx": sorted(rng.sample(range(n), rng.randint(1, max(1, n - 1))))}
    lo = math.log(spec["low"]) if spec.get("log") else spec["low"]
    hi = math.log(spec["high"]) if spec.get("log") else spec["high"]
    thr = lo + (hi - lo) * rng.choice([0.3, 0.5, 0.5, 0.7])
    return {"p": name, "v": round(math.exp(thr) if spec.get("log") else thr, 4)}


def _gen_block(rng: random.Random, params: dict, have: list[str], depth: int, finite: bool, opts: dict) -> list:
    out: list[dict] = []
    have = list(have)
    n_act = rng.randint(2, 4) if depth == 0 else rng.randint(1, 2)
    for _ in range(n_act):
        r = rng.random()
        free = [n for n in NAMES if n not in have]
        if (r < 0.55 or not have) and free:
            known = [n for n in free if n in params]
            fresh = [n for n in free if n not in params]
            can_fresh = bool(fresh) and len(params) < opts["max_params"]
            if known and (not can_fresh or rng.random() < 0.5):
                name = rng.choice(known)
            elif can_fresh:
                name = rng.choice(fresh)
                params[name] = _gen_spec(rng, finite)
            else:
                continue
            out.append({"a": "suggest", "p": name})
            have.append(name)
        elif r < 0.8 and have and depth < 2:
            name = rng.choice(have)
            node = _gen_cond(rng, name, params[name])
            node["a"] = "if"
            node["then"] = _gen_block(rng, params, have, depth + 1, finite, opts)
            node["else"] = _gen_block(rng, params, have, depth + 1, finite, opts) if rng.random() < 0.7 else []
            out.append(node)
        elif r < 0.9 and have and opts["reports"]:
            out.append({"a": "report", "n": rng.randint(1, 3), "stride": rng.choice([1, 1, 2]), "amp": rng.choice([1.0, -1.0, 0.25, 3.0])})
        elif r < 0.94:
            out.append({"a": "attr", "k": rng.choice(["u", "v"]), "v": rng.choice([1, "s", [1, 2.5, None], {"k": [0.1, True]}, 1e-7])})
        elif r < 0.98 and opts["fails"]:
            out.append({"a": "fail", "mod": rng.choice([3, 4, 5, 7]) if depth == 0 else rng.choice([1, 2]), "rem": rng.choice([0, 1, 2]) if depth == 0 else 0})
        elif depth > 0 and opts["rets"]:
            out.append({"a": "ret", "v": rng.choice(["nan", "nan", "inf", "-inf"])})
    return out


def gen_program(rng: random.Random, finite: bool, reports: bool) -> dict:
    # BruteForceSampler needs a parameter tree that is a function of the earlier parameters only:
    # in finite programs nothing but a parameter-determined `return` may cut a trial short before
    # its last suggest (reports/pruning and number-dependent failures come after all suggests)
    fails = rng.random() < 0.6
    opts = {"max_params": rng.choice([2, 3, 4, 5] if not finite else [2, 3, 3]), "reports": reports and not finite, "fails": fails and not finite, "rets": fails}
    for _ in range(100):
        params: dict = {}
        body = _gen_block(rng, params, [], 0, finite, opts)
        if not params:
            continue
        if reports:
            # make sure the pruner sees something: a report block after the first suggests, one at the end
            if not finite:
                body.insert(rng.randint(1, len(body)), {"a": "report", "n": rng.randint(1, 3), "stride": 1, "amp": rng.choice([1.0, -1.0, 2.0])})
            if finite or rng.random() < 0.7:
                body.append({"a": "report", "n": rng.randint(1, 3), "stride": rng.choice([1, 2]), "amp": rng.choice([0.5, -0.5, 1.0])})
        if finite and fails and rng.random() < 0.5:
            body.append({"a": "fail", "mod": rng.choice([3, 4, 5, 7]), "rem": rng.choice([0, 1, 2])})
        prog = {"params": params, "body": body}
        if finite:
            n = count_leaves(prog)
            if n < 4 or n > 200:
                continue
        return prog
    raise _HarnessBug("program generator did not converge")


SAMPLERS = [
    ("random", 1.5),
    ("tpe", 2.0),
    ("tpe-mv", 2.0),
    ("tpe-group", 2.0),
    ("tpe-cl", 1.2),
    ("nsga2", 2.0),
    ("nsga3", 1.5),
    ("qmc", 1.5),
    ("gp", 0.25),
    ("grid", 1.0),
    ("brute", 1.2),
    ("partial-random", 0.6),
    ("partial-tpe", 0.8),
]
PRUNERS = ["nop", "median", "percentile", "sha", "hyperband", "patient", "threshold", "wilcoxon"]


def _gen_sampler(rng: random.Random, name: str) -> dict:
    s: dict[str, Any] = {"name": name, "seed": rng.choice([0, 1, 7, 42, rng.randint(0, 2**31 - 1)])}
    if name.startswith("tpe") or name == "partial-tpe":
        s.update({"n_startup": rng.choice([1, 2, 3, 4]), "n_ei": rng.choice([4, 8, 24]), "endpoints": rng.random() < 0.3, "magic_clip": rng.random() < 0.8})
    if name.startswith("nsga"):
        s.update({"pop": rng.choice([2, 3, 4, 5]), "mutation_prob": rng.choice([None, None, 0.3]), "crossover_prob": rng.choice([0.9, 0.5]), "swapping_prob": 0.5})
        if name == "nsga2":
            s["crossover"] = rng.choice([None, None, "uniform", "blxalpha", "sbx", "spx", "vsbx", "undx"])
            if s["crossover"] in ("spx", "undx"):
                s["pop"] = max(3, s["pop"])
        else:
            s["dividing"] = rng.choice([2, 3])
    if name == "qmc":
        s.update({"qmc_type": rng.choice(["sobol", "halton"]), "scramble": rng.random() < 0.6})
    if name == "gp":
        s.update({"n_startup": rng.choice([2, 3]), "deterministic": rng.random() < 0.5})
    if name == "brute":
        s["avoid_premature_stop"] = rng.random() < 0.3
    return s


def _gen_pruner(rng: random.Random, name: str) -> dict:
    p: dict[str, Any] = {"name": name}
    if name in ("median", "percentile"):
        p.update({"n_startup": rng.choice([0, 1, 2, 3]), "n_warmup": rng.choice([0, 0, 1, 2]), "interval": rng.choice([1, 1, 2]), "n_min": rng.choice([1, 1, 2])})
        if name == "percentile":
            p["percentile"] = rng.choice([25.0, 50.0, 75.0])
    elif name == "sha":
        p.update({"min_resource": rng.choice([1, 1, 2, "auto"]), "rf": rng.choice([2, 3, 4]), "mesr": rng.choice([0, 0, 1]), "bootstrap": rng.choice([0, 0, 1])})
    elif name == "hyperband":
        p.update({"min_resource": 1, "max_resource": rng.choice([3, 4, 9, "auto"]), "rf": rng.choice([2, 3])})
    elif name == "patient":
        p.update({"wrapped": rng.choice([None, "median", "median", "percentile"]), "patience": rng.choice([0, 1, 2]), "min_delta": rng.choice([0.0, 0.0, 0.1])})
    elif name == "threshold":
        p.update({"lower": rng.choice([None, -1.0, 0.0]), "upper": rng.choice([None, 1.0, 3.0]), "n_warmup": rng.choice([0, 1]), "interval": rng.choice([1, 2])})
        if p["lower"] is None and p["upper"] is None:
            p["upper"] = 2.0
    elif name == "wilcoxon":
        p.update({"p": rng.choice([0.1, 0.3, 0.5]), "n_startup": rng.choice([0, 1, 2])})
    return p


def _gen_pre(rng: random.Random, must_shift: bool) -> list:
    pre = []
    k = rng.choice([1, 1, 2, 3]) if must_shift else rng.choice([0, 0, 1, 2])
    for i in range(k):
        pre.append({"name": "other%d" % i, "trials": rng.choice([0, 1, 2, 3, 5, 9]), "deleted": rng.random() < 0.15, "running": rng.random() < 0.3})
    if must_shift and not any(p["trials"] > 0 and not p["deleted"] for p in pre):
        pre.append({"name": "other%d" % len(pre), "trials": rng.randint(1, 7), "deleted": False, "running": False})
    return pre


def _gen_env(rng: random.Random, eid: str, kind: str, n_trials: int, clean: bool, must_shift: bool) -> dict:
    splits: list[int] = []
    style = "one" if clean and rng.random() < 0.5 else rng.choice(["one", "two", "many", "ones"])
    if style == "two":
        splits = [rng.randint(1, max(1, n_trials - 1))]
    elif style == "many":
        splits = [rng.randint(1, 4) for _ in range(rng.randint(2, 4))]
    elif style == "ones":
        splits = [1] * n_trials
    env = {
        "id": eid,
        "kind": kind,
        "pre": [] if clean else _gen_pre(rng, must_shift),
        "noise": 0 if clean else rng.choice([0, 0, 1, 2]),
        "t0": 1_700_000_000.0 if clean else rng.choice([1_700_000_000.0, 1_000_000_000.25, 946_684_800.0, 4_000_000_000.5, 86_400.0 * 400]),
        "jumps": [] if clean else [rng.choice([3600.0, -86_400.0, 0.5, 1e6, -0.001, 31_536_000.0, -3.5]) for _ in range(rng.randint(0, 3))],
        "uuid_salt": "s%d" % rng.randint(0, 999),
        "map_salt": rng.randint(0, 999),
        "pool": rng.choice([1, 2, 3, 10]),
        "snapshot_interval": rng.choice([2, 3, 5, 100]),
        "read_block": rng.choice([16, 64, 8192]),
        "splits": splits,
    }
    return env


def gen_plan(seed: int, run: int, tier: str) -> dict:
    rng = common.rng_for(seed, run, "work")
    big = tier == "thorough"
    sname = common.weighted(rng, SAMPLERS)
    sampler = _gen_sampler(rng, sname)
    finite = sname in ("grid", "brute")
    multi_ok = sname != "gp"
    if sname.startswith("nsga"):
        nobj = 2 if rng.random() < 0.75 else 1
    else:
        nobj = 2 if multi_ok and rng.random() < 0.2 else 1
    directions = [rng.choice(["minimize", "maximize"]) for _ in range(nobj)]
    pname = "nop" if nobj > 1 else common.weighted(rng, [(p, 1.0 if p != "nop" else 2.0) for p in PRUNERS])
    pruner = _gen_pruner(rng, pname)
    prog = gen_program(rng, finite, reports=(nobj == 1 and (pname != "nop" or rng.random() < 0.5)))
    if sname == "gp":
        n_trials = rng.randint(4, 7)
    else:
        n_trials = rng.randint(4, 20 if big else 12)
    if sname == "brute":
        n_trials = min(n_trials, count_leaves(prog) - 1)
    if sname == "grid":
        for name, spec in prog["params"].items():
            dom = domain(spec)
            if dom is None:
                spec["grid"] = sorted({round(spec["low"] + (spec["high"] - spec["low"]) * rng.random(), 3) for _ in range(rng.randint(1, 3))})
            elif len(dom) > 1 and rng.random() < 0.4:
                spec["grid"] = rng.sample(dom, rng.randint(1, len(dom)))
        size = 1
        for v in grid_of(prog).values():
            size *= len(v)
        if size < 3:
            # enlarge: every parameter gets its full domain
            for spec in prog["params"].values():
                spec.pop("grid", None)
            size = 1
            for v in grid_of(prog).values():
                size *= len(v)
        n_trials = max(1, min(n_trials, size - 1))
    if sname.startswith("partial"):
        name = rng.choice(sorted(prog["params"]))
        spec = prog["params"][name]
        dom = domain(spec)
        if dom is not None:
            val = rng.choice(dom)
        else:
            val = round(spec["low"] + (spec["high"] - spec["low"]) * rng.random(), 6)
        sampler["fixed"] = {name: val}
    # ---- environments
    n_env = rng.choice([3, 3, 4] if not big else [3, 4, 5])
    cheap = _kinds(CHEAP) or CHEAP
    sqlite = _kinds(SQLITE)
    if os.environ.get("VERIF_DEPLOYMENTS") and not _kinds(CHEAP):
        cheap = sqlite or CHEAP
    if sname in ORDER_SENSITIVE and (os.environ.get("VERIF_C09_GRPC_ORDER") == "0" or rng.random() < 0.5):
        cheap = [(k, w) for k, w in cheap if not k.startswith("grpc(")] or [("mem", 1.0)]
        sqlite = [(k, w) for k, w in sqlite if not k.startswith("grpc(")]
    envs = []
    clean_first = rng.random() < 0.85
    sq_slot = rng.randrange(1, n_env) if sqlite and rng.random() < (0.3 if sname != "gp" else 0.1) else -1
    for i in range(n_env):
        pool = sqlite if i == sq_slot else cheap
        if i == 0 and sname in ORDER_SENSITIVE:
            # the reference environment of an order-sensitive sampler is never a proxy (F17)
            pool = [(k, w) for k, w in pool if not k.startswith("grpc(")] or [("mem", 1.0)]
        kind = common.weighted(rng, pool)
        envs.append(_gen_env(rng, ENV_IDS[i], kind, n_trials, clean=(i == 0 and clean_first), must_shift=False))
    if not any(_shifts(e) for e in envs):
        j = rng.randrange(1, n_env)
        envs[j]["pre"] = _gen_pre(rng, True)
    inner0 = _inner(envs[-1]["kind"])
    cands = [
        (k, w)
        for k, w in (cheap + [(k, w * 0.4) for k, w in sqlite])
        if not (_inner(k) in SQLITE_INNER and inner0 in SQLITE_INNER) and not (_inner(k).startswith("jf") and inner0.startswith("jf")) and not (k.startswith("grpc(") and envs[-1]["kind"].startswith("grpc("))
    ] or [("mem", 1.0)]
    cp = {"kind": common.weighted(rng, cands), "pre": _gen_pre(rng, rng.random() < 0.6), "name": rng.choice([None, None, "copied"]), "pool": rng.choice([1, 3, 10]), "snapshot_interval": rng.choice([2, 100]), "read_block": rng.choice([16, 8192])}
    return {
        "check": ID,
        "seed": seed,
        "run": run,
        "cfg": {"p_seam": 0.0, "p_line": 0.0},
        "study_name": "c09-%d" % rng.randint(0, 30),
        "sampler": sampler,
        "pruner": pruner,
        "directions": directions,
        "n_trials": n_trials,
        "program": prog,
        "envs": envs,
        "copy": cp,
        # thorough tier: the first environment is run once more in a fresh interpreter under another
        # PYTHONHASHSEED (str-keyed set/dict-of-set iteration order inside optuna must not matter)
        # samplers that work on sets of parameter names get the axis five times as often
        "hashseed": rng.choice([1, 2, 3, 12345, 4294967295]) if rng.random() < _hashseed_rate(tier) * (5.0 if sname in ("tpe-group", "tpe-mv", "partial-tpe") else 1.0) and sname != "gp" else None,
        "sched": {"seed": rng.getrandbits(48)},
    }


def _hashseed_rate(tier: str) -> float:
    v = os.environ.get("VERIF_C09_HASHSEED_RATE")
    if v is not None:
        return float(v)
    # quick tier: a small share of the runs too (each costs one fresh interpreter, ~2-3 s)
    return 0.1 if tier == "thorough" else 0.04


def _inner(kind: str) -> str:
    return kind[5:-1] if kind.startswith("grpc(") else kind


def _shifts(env: dict) -> bool:
    """Trial ids of the study certainly differ from trial numbers in this environment."""
    return _inner(env["kind"]) in SQLITE_INNER or any(p.get("trials", 0) > 0 and not p.get("deleted") for p in env.get("pre", []))


def env_label(env: dict) -> str:
    other = any(p.get("trials", 0) > 0 for p in env.get("pre", [])) or env.get("noise")
    return env["kind"] + ("+other" if other else "")


# ====================================================================== runner glue
def shrink_paths(plan: dict) -> list[tuple]:
    # index-based paths first: the runner computes the list once per pass, so a list must be
    # shrunk only after every path that points into it
    paths: list[tuple] = []
    for i, e in enumerate(plan.get("envs", [])):
        if e.get("splits"):
            paths.append(("envs", i, "splits"))
        if e.get("pre"):
            paths.append(("envs", i, "pre"))
        if e.get("jumps"):
            paths.append(("envs", i, "jumps"))
    paths.append(("envs",))
    if plan.get("copy", {}).get("pre"):
        paths.append(("copy", "pre"))

    def rec(block: Any, path: tuple) -> None:
        if not isinstance(block, list) or not block:
            return
        for i, act in enumerate(block):
            if isinstance(act, dict) and act.get("a") == "if":
                rec(act.get("then"), path + (i, "then"))
                rec(act.get("else"), path + (i, "else"))
        paths.append(path)

    rec(plan.get("program", {}).get("body"), ("program", "body"))
    if len(plan.get("program", {}).get("params", {})) > 1:
        paths.append(("program", "params"))
    if isinstance(plan.get("sched", {}).get("table"), dict) and plan["sched"]["table"]:
        paths.append(("sched", "table"))
    return paths


def signature_class(sig: str) -> str:
    return "|".join(sig.split("|")[:3])


def _prog_str(prog: dict) -> str:
    def spec_s(s: dict) -> str:
        if s["t"] == "cat":
            return "cat%s" % json.dumps(s["choices"])
        return "%s[%s,%s%s%s]%s" % (s["t"], s["low"], s["high"], ",step=%s" % s["step"] if s.get("step") not in (None, 1) else "", ",log" if s.get("log") else "", " grid=%s" % s["grid"] if s.get("grid") else "")

    def blk(b: Any) -> str:
        out = []
        for a in b or []:
            k = a.get("a")
            if k == "suggest":
                out.append(a["p"])
            elif k == "if":
                c = "%s in idx%s" % (a["p"], a["idx"]) if "idx" in a else "%s<%s" % (a["p"], a.get("v"))
                out.append("if %s {%s} else {%s}" % (c, blk(a.get("then")), blk(a.get("else"))))
            elif k == "report":
                out.append("report*%d(stride %s, amp %s)" % (a.get("n", 1), a.get("stride", 1), a.get("amp")))
            elif k == "fail":
                out.append("fail if number%%%s==%s" % (a.get("mod"), a.get("rem")))
            elif k == "ret":
                out.append("return %s" % a.get("v"))
            elif k == "attr":
                out.append("attr %s" % a.get("k"))
        return "; ".join(out)

    return "%s  where %s" % (blk(prog.get("body")), ", ".join("%s:%s" % (n, spec_s(s)) for n, s in prog.get("params", {}).items()))


def _env_str(e: dict) -> str:
    pre = ",".join("%s:%d%s" % (p.get("name"), p.get("trials", 0), "(deleted)" if p.get("deleted") else "") for p in e.get("pre", []))
    return "%s=%s pre[%s] noise=%s t0=%s jumps=%s splits=%s pool=%s" % (e.get("id"), e.get("kind"), pre, e.get("noise", 0), e.get("t0"), e.get("jumps", []), e.get("splits", []), e.get("pool"))


def sample_view(plan: dict, res: dict) -> dict:
    return {
        "sampler": plan["sampler"],
        "pruner": plan["pruner"],
        "directions": plan["directions"],
        "n_trials": plan["n_trials"],
        "program": _prog_str(plan["program"]),
        "envs": [_env_str(e) for e in plan["envs"]],
        "copy_to": plan["copy"]["kind"],
        "status": res["status"],
        "counters": {k: v for k, v in res.get("counters", {}).items() if k.startswith(("trials:", "env_ids", "copy", "excluded", "splits"))},
    }


# ====================================================================== samplers / pruners
def make_sampler(plan: dict) -> Any:
    import optuna

    S = optuna.samplers
    s = plan["sampler"]
    name, seed = s["name"], s.get("seed", 0)

    def tpe(**kw: Any) -> Any:
        return S.TPESampler(seed=seed, n_startup_trials=s.get("n_startup", 2), n_ei_candidates=s.get("n_ei", 24), consider_endpoints=bool(s.get("endpoints")), consider_magic_clip=bool(s.get("magic_clip", True)), **kw)

    if name == "random":
        return S.RandomSampler(seed=seed)
    if name == "tpe":
        return tpe()
    if name == "tpe-mv":
        return tpe(multivariate=True)
    if name == "tpe-group":
        return tpe(multivariate=True, group=True)
    if name == "tpe-cl":
        return tpe(constant_liar=True)
    if name == "nsga2":
        from optuna.samplers import nsgaii as X

        cx = {None: None, "uniform": lambda: X.UniformCrossover(s.get("swapping_prob", 0.5)), "blxalpha": X.BLXAlphaCrossover, "sbx": X.SBXCrossover, "spx": X.SPXCrossover, "vsbx": X.VSBXCrossover, "undx": X.UNDXCrossover}[s.get("crossover")]
        return S.NSGAIISampler(seed=seed, population_size=s.get("pop", 4), mutation_prob=s.get("mutation_prob"), crossover_prob=s.get("crossover_prob", 0.9), swapping_prob=s.get("swapping_prob", 0.5), crossover=cx() if cx else None)
    if name == "nsga3":
        return S.NSGAIIISampler(seed=seed, population_size=s.get("pop", 4), mutation_prob=s.get("mutation_prob"), crossover_prob=s.get("crossover_prob", 0.9), swapping_prob=s.get("swapping_prob", 0.5), dividing_parameter=s.get("dividing", 3))
    if name == "qmc":
        return S.QMCSampler(seed=seed, qmc_type=s.get("qmc_type", "sobol"), scramble=bool(s.get("scramble")), warn_independent_sampling=False, warn_asynchronous_seeding=False)
    if name == "gp":
        return S.GPSampler(seed=seed, n_startup_trials=s.get("n_startup", 3), deterministic_objective=bool(s.get("deterministic")))
    if name == "grid":
        return S.GridSampler(grid_of(plan["program"]), seed=seed)
    if name == "brute":
        return S.BruteForceSampler(seed=seed, avoid_premature_stop=bool(s.get("avoid_premature_stop")))
    if name.startswith("partial"):
        base = S.RandomSampler(seed=seed) if name == "partial-random" else tpe(multivariate=True)
        fixed = {k: v for k, v in (s.get("fixed") or {}).items() if k in plan["program"].get("params", {})}
        return S.PartialFixedSampler(fixed, base)
    raise _HarnessBug("unknown sampler " + name)


def make_pruner(plan: dict) -> Any:
    import optuna

    P = optuna.pruners
    p = plan["pruner"]
    name = p["name"]

    def median(q: dict) -> Any:
        return P.MedianPruner(n_startup_trials=q.get("n_startup", 1), n_warmup_steps=q.get("n_warmup", 0), interval_steps=q.get("interval", 1), n_min_trials=q.get("n_min", 1))

    def percentile(q: dict) -> Any:
        return P.PercentilePruner(q.get("percentile", 50.0), n_startup_trials=q.get("n_startup", 1), n_warmup_steps=q.get("n_warmup", 0), interval_steps=q.get("interval", 1), n_min_trials=q.get("n_min", 1))

    if name == "nop":
        return P.NopPruner()
    if name == "median":
        return median(p)
    if name == "percentile":
        return percentile(p)
    if name == "sha":
        return P.SuccessiveHalvingPruner(min_resource=p.get("min_resource", 1), reduction_factor=p.get("rf", 3), min_early_stopping_rate=p.get("mesr", 0), bootstrap_count=p.get("bootstrap", 0) if p.get("min_resource") != "auto" else 0)
    if name == "hyperband":
        return P.HyperbandPruner(min_resource=p.get("min_resource", 1), max_resource=p.get("max_resource", 4), reduction_factor=p.get("rf", 3))
    if name == "patient":
        w = p.get("wrapped")
        return P.PatientPruner(median({}) if w == "median" else percentile({"percentile": 30.0}) if w == "percentile" else None, patience=p.get("patience", 1), min_delta=p.get("min_delta", 0.0))
    if name == "threshold":
        return P.ThresholdPruner(lower=p.get("lower"), upper=p.get("upper"), n_warmup_steps=p.get("n_warmup", 0), interval_steps=p.get("interval", 1))
    if name == "wilcoxon":
        return P.WilcoxonPruner(p_threshold=p.get("p", 0.1), n_startup_steps=p.get("n_startup", 0))
    raise _HarnessBug("unknown pruner " + name)


# ====================================================================== canonical forms
def cv(v: Any) -> Any:
    if v is None:
        return None
    if isinstance(v, bool):
        return ["b", v]
    if isinstance(v, int):
        return ["i", v]
    if isinstance(v, float):
        return ["f", float(v).hex()]
    if isinstance(v, str):
        return ["s", v]
    if hasattr(v, "item"):
        return cv(v.item())
    return ["?", repr(v)]


def trace_of(trials: list) -> list:
    out = []
    for t in sorted(trials, key=lambda t: t.number):
        out.append(
            {
                "n": t.number,
                "state": t.state.name,
                "values": None if t.values is None else [cv(float(v)) for v in t.values],
                "params": sorted([k, cv(v)] for k, v in t.params.items()),
                "iv": sorted([int(k), cv(float(v))] for k, v in t.intermediate_values.items()),
            }
        )
    return out


def full_of(trials: list) -> list:
    from optuna.distributions import distribution_to_json

    out = []
    for t in sorted(trials, key=lambda t: t.number):
        d = trace_of([t])[0]
        d["dists"] = sorted([k, distribution_to_json(v)] for k, v in t.distributions.items())
        d["user_attrs"] = json.dumps(t.user_attrs, sort_keys=True, default=repr)
        d["system_attrs"] = json.dumps(t.system_attrs, sort_keys=True, default=repr)
        d["start"] = None if t.datetime_start is None else t.datetime_start.isoformat()
        d["complete"] = None if t.datetime_complete is None else t.datetime_complete.isoformat()
        out.append(d)
    return out


def _unhex(c: Any) -> Any:
    if isinstance(c, list) and len(c) == 2 and c[0] == "f":
        return float.fromhex(c[1])
    if isinstance(c, list) and len(c) == 2:
        return c[1]
    return c


def _show(x: Any) -> str:
    if isinstance(x, list) and x and isinstance(x[0], list) and len(x[0]) == 2 and isinstance(x[0][0], (str, int)) and not isinstance(x[0][1], str):
        return "{" + ", ".join("%s: %r" % (k, _unhex(v)) for k, v in x) + "}"
    if isinstance(x, list):
        return "[" + ", ".join(repr(_unhex(v)) for v in x) + "]"
    return repr(x)


def first_diff(a: list, b: list, fields: tuple) -> tuple[str, str] | None:
    """(short, long) description of the first difference between two canonical trial lists."""
    for i in range(min(len(a), len(b))):
        for f in fields:
            if a[i].get(f) != b[i].get(f):
                return "trial %d %s" % (a[i]["n"], f), "trial %d: %s = %s  vs  %s" % (a[i]["n"], f, _show(a[i].get(f))[:300], _show(b[i].get(f))[:300])
    if len(a) != len(b):
        return "trial count", "%d trials vs %d trials" % (len(a), len(b))
    return None


def is_noise(a: list, b: list) -> bool:
    """The first differing trial differs only by tiny relative perturbations of numbers."""
    for i in range(min(len(a), len(b))):
        if a[i] == b[i]:
            continue
        x, y = a[i], b[i]
        if x["state"] != y["state"] or [k for k, _ in x["params"]] != [k for k, _ in y["params"]]:
            return False
        for (_, p), (_, q) in zip(x["params"], y["params"]):
            if p == q:
                continue
            if not (isinstance(p, list) and isinstance(q, list) and p[0] == q[0] == "f"):
                return False
            u, v = float.fromhex(p[1]), float.fromhex(q[1])
            if not (abs(u - v) <= 1e-6 * max(abs(u), abs(v), 1e-300)):
                return False
        return True
    return False


TRACE_FIELDS = ("state", "params", "iv", "values")
FULL_FIELDS = ("n", "state", "values", "params", "dists", "user_attrs", "system_attrs", "iv", "start", "complete")


# ====================================================================== one environment
class _Chooser:
    """Carrier for the merged decision tables of the per-environment choosers."""

    def __init__(self) -> None:
        self.recorded: dict[str, str] = {}


def _env_chooser(plan: dict, tag: str) -> sched.Chooser:
    s = plan["sched"]
    if "table" in s:
        pre = tag + "/"
        return sched.Chooser(None, {k[len(pre) :]: v for k, v in s["table"].items() if k.startswith(pre)})
    # same tag => same decisions (the same-environment repeat re-uses the tag of its environment)
    return sched.Chooser(random.Random("%s/%s" % (s["seed"], tag)), None, p_line=0.0, p_seam=0.0)


def _make_pre(st: Any, pre: list) -> Any:
    """Create the studies/trials that exist before ours.  Returns the id of a live one (or None)."""
    from optuna.distributions import FloatDistribution
    from optuna.study import StudyDirection
    from optuna.trial import TrialState

    live = None
    for i, ps in enumerate(pre or []):
        if not isinstance(ps, dict):
            continue
        sid = st.create_new_study([StudyDirection.MINIMIZE], "%s-%d" % (ps.get("name", "other"), i))
        n = int(ps.get("trials", 0))
        for j in range(n):
            tid = st.create_new_trial(sid)
            st.set_trial_param(tid, "q", 0.25 * j, FloatDistribution(0.0, 100.0))
            if not (ps.get("running") and j == n - 1):
                st.set_trial_state_values(tid, TrialState.COMPLETE, [float(j)])
        if ps.get("deleted"):
            st.delete_study(sid)
        else:
            live = sid
    return live


class _ProtoMapOrder:
    """Seam for the iteration order of protobuf map<> fields.

    The protobuf spec leaves map iteration order undefined; the installed implementation (upb)
    iterates in a hash order that depends on heap addresses: it differs between interpreters and
    between message instances, with or without ASLR.  The gRPC proxy builds FrozenTrial.params,
    .distributions, .user_attrs, .system_attrs and .intermediate_values by iterating such maps
    (servicer._from_proto_trial, used by client and servicer).  To keep the verdict a function of
    the plan, the simulator owns this nondeterminism: while an environment runs, the dicts built
    from protobuf maps are re-ordered by a keyed hash of (environment's map_salt, key) - an
    arbitrary but reproducible order, exactly as arbitrary as the real one.

    `ref` (diagnostic re-run only, never on the verdict path): params/distributions of trial
    number n are put in the order ref[n] - the suggestion order observed in a non-proxy environment.
    """

    def __init__(self, salt: str, ref: dict | None = None) -> None:
        self.salt = salt
        self.ref = ref

    def __enter__(self) -> None:
        from optuna.storages._grpc import client as gc_
        from optuna.storages._grpc import servicer as gs

        # simkit installs its own wrapper (dicts sorted by key); wrap whatever is installed then
        seams.install()
        orig = gs.__dict__["_from_proto_trial"]
        if getattr(orig, "_c09_seam", False):
            raise _HarnessBug("nested protobuf map order seam")
        self.orig = orig
        salt, ref = self.salt, self.ref

        def rank(k: Any) -> bytes:
            return hashlib.blake2b(("%s/%r" % (salt, k)).encode(), digest_size=8).digest()

        def hashed(d: dict) -> dict:
            return {k: d[k] for k in sorted(d, key=rank)} if len(d) > 1 else d

        def patched(proto: Any) -> Any:
            t = orig(proto)
            t.user_attrs = hashed(t.user_attrs)
            t.system_attrs = hashed(t.system_attrs)
            t.intermediate_values = hashed(t.intermediate_values)
            if ref is None:
                t.params = hashed(t.params)
                t.distributions = hashed(t.distributions)
            else:
                r = ref.get(t.number) or []
                t.params = {k: t.params[k] for k in [k for k in r if k in t.params] + [k for k in hashed(t.params) if k not in r]}
                t.distributions = {k: t.distributions[k] for k in [k for k in r if k in t.distributions] + [k for k in hashed(t.distributions) if k not in r]}
            return t

        patched._c09_seam = True  # type: ignore[attr-defined]
        # the client module reaches the servicer through a _LazyImport object that holds a copy
        # of the module dict after its first use: patch both
        getattr(gc_.grpc_servicer, "_from_proto_trial")  # force the lazy load before patching
        self.targets = [gs, gc_.grpc_servicer]
        for tgt in self.targets:
            setattr(tgt, "_from_proto_trial", patched)

    def __exit__(self, *a: Any) -> None:
        for tgt in self.targets:
            setattr(tgt, "_from_proto_trial", self.orig)


class _GaParentsById:
    """Diagnostic only (never on the verdict path): while active, BaseGASampler.get_parent_population
    resolves the cached parent ids (trial._trial_id values) by id instead of using them as indexes
    into the trial list (F7)."""

    def __init__(self, active: bool) -> None:
        self.active = active

    def __enter__(self) -> None:
        if not self.active:
            return
        from optuna.samplers._ga import _base as gb

        self.cls = gb.BaseGASampler
        self.orig = self.cls.__dict__["get_parent_population"]

        def get_parent_population(self_: Any, study: Any, generation: int) -> list:
            if generation == 0:
                return []
            key = self_._get_parent_cache_key_prefix() + str(generation)
            ids = study._storage.get_study_system_attrs(study._study_id).get(key, None)
            if ids is not None:
                by_id = {t._trial_id: t for t in study._get_trials(deepcopy=False)}
                return [by_id[i] for i in ids]
            parents = self_.select_parent(study, generation)
            study._storage.set_study_system_attr(study._study_id, key, [t._trial_id for t in parents])
            return parents

        self.cls.get_parent_population = get_parent_population

    def __exit__(self, *a: Any) -> None:
        if self.active:
            self.cls.get_parent_population = self.orig


def run_env(plan: dict, env: dict, merged: _Chooser, totals: dict, with_copy: bool = False, reorder: dict | None = None, ga_by_id: bool = False) -> dict:
    """Run the whole optimisation in one environment.  Returns trace (+ copy views)."""
    if not (env["kind"].startswith("grpc(") or (with_copy and str((plan.get("copy") or {}).get("kind", "")).startswith("grpc("))):
        with _GaParentsById(ga_by_id):
            return _run_env(plan, env, merged, totals, with_copy)
    with _ProtoMapOrder("%s/%s" % (plan.get("seed", 0), env.get("map_salt", 0)), reorder), _GaParentsById(ga_by_id):
        return _run_env(plan, env, merged, totals, with_copy)


def _run_env(plan: dict, env: dict, merged: _Chooser, totals: dict, with_copy: bool) -> dict:
    import optuna
    from optuna.study import StudyDirection

    tag = str(env.get("id", "A"))
    ch = _env_chooser(plan, tag)
    sim = sched.Sim(ch, trace_suffixes=(), max_steps=3_000_000, uuid_salt=str(env.get("uuid_salt", "0")), t0=float(env.get("t0", 1_700_000_000.0)))
    kind = env["kind"]
    cfg = {"pool": env.get("pool", 10), "snapshot_interval": env.get("snapshot_interval", 100), "read_block": env.get("read_block", 8192), "busy_timeout": 300.0}
    name = plan["study_name"]
    prog = plan["program"]
    nobj = len(plan["directions"])
    sname = plan["sampler"]["name"]
    n_trials = int(plan["n_trials"])
    if sname == "brute":
        n_trials = min(n_trials, count_leaves(prog) - 1)
    elif sname == "grid":
        size = 1
        for v in grid_of(prog).values():
            size *= len(v)
        n_trials = min(n_trials, size - 1)
    out: dict[str, Any] = {"trace": None, "exc": None, "ids_differ": False, "copy": None, "ncalls": 0, "label": env_label(env), "n_trials": n_trials}
    cp = plan.get("copy") or {}
    dep = deploy.Deployment(sim, kind, cfg)
    dep2 = None
    try:
        if with_copy:
            dep2 = deploy.Deployment(sim, cp["kind"], {"pool": cp.get("pool", 10), "snapshot_interval": cp.get("snapshot_interval", 100), "read_block": cp.get("read_block", 8192), "busy_timeout": 300.0})
            seams.set_sim(sim, dep.fs if dep.fs is not None else dep2.fs)
        proc = sim.proc("W0")
        st = dep.client(proc)
        st2 = dep2.client(proc) if dep2 is not None else None
        to_name = cp.get("name") or name

        def objective(trial: Any) -> Any:
            def sug(pn: str, spec: dict) -> Any:
                if spec["t"] == "cat":
                    return trial.suggest_categorical(pn, spec["choices"])
                if spec["t"] == "int":
                    return trial.suggest_int(pn, spec["low"], spec["high"], step=spec.get("step") or 1, log=bool(spec.get("log")))
                return trial.suggest_float(pn, spec["low"], spec["high"], step=spec.get("step"), log=bool(spec.get("log")))

            def rep(value: float, step: int) -> None:
                trial.report(value, step)
                if trial.should_prune():
                    raise optuna.TrialPruned()

            try:
                vals = interpret(prog, nobj, trial.number, sug, rep, trial.set_user_attr)
            except _Return as r:
                v = {"nan": float("nan"), "inf": float("inf"), "-inf": float("-inf")}.get(r.value, 0.0)
                return v if nobj == 1 else [v] * nobj
            return vals[0] if nobj == 1 else vals

        def body() -> None:
            other = _make_pre(st, env.get("pre", []))
            sampler = make_sampler(plan)
            pruner = make_pruner(plan)
            study = optuna.create_study(storage=st, study_name=name, sampler=sampler, pruner=pruner, directions=list(plan["directions"]))
            study.set_user_attr("origin", {"check": ID, "k": [1, 2.5, None]})
            splits = [int(s) for s in env.get("splits", []) if isinstance(s, int) and s >= 1]
            jumps = [float(j) for j in env.get("jumps", [])]
            done = 0
            i = 0
            try:
                while done < n_trials:
                    k = min(splits[i], n_trials - done) if i < len(splits) else n_trials - done
                    out["ncalls"] += 1
                    study.optimize(objective, n_trials=k, catch=(_DetFail,))
                    done += k
                    if done < n_trials:
                        if jumps:
                            d = jumps[i % len(jumps)]
                            sim.count("clock_jump_fwd" if d > 0 else "clock_jump_back")
                            if d > 0:
                                sim.sleep(d)
                            else:
                                sim.now += d
                        for _ in range(int(env.get("noise", 0) or 0)):
                            if other is None:
                                other = st.create_new_study([StudyDirection.MINIMIZE], "noise")
                            st.create_new_trial(other)
                    i += 1
            except (sched.HarnessError, sched.SimDeadlock, _HarnessBug):
                raise
            except Exception as e:  # an exception out of optimize is an observable of the run
                tb = traceback.extract_tb(e.__traceback__)
                if tb and tb[-1].filename.endswith("c09_repro.py"):
                    raise
                where = "%s:%s" % (tb[-1].filename.split("/optuna/")[-1], tb[-1].name) if tb else "?"
                out["exc"] = {"type": type(e).__name__, "where": where, "msg": str(e)[:200]}
            trials = study.get_trials(deepcopy=False)
            out["trace"] = trace_of(trials)
            out["order"] = {t.number: list(t.params) for t in trials}
            out["ids_differ"] = any(t._trial_id != t.number for t in trials)
            if st2 is not None and out["exc"] is None:
                _make_pre(st2, cp.get("pre", []))
                c: dict[str, Any] = {"exc": None}
                try:
                    optuna.copy_study(from_study_name=name, from_storage=st, to_storage=st2, to_study_name=to_name)
                except (sched.HarnessError, sched.SimDeadlock, _HarnessBug):
                    raise
                except Exception as e:
                    tb = traceback.extract_tb(e.__traceback__)
                    c["exc"] = "%s at %s: %s" % (type(e).__name__, "%s:%s" % (tb[-1].filename.split("/optuna/")[-1], tb[-1].name) if tb else "?", str(e)[:200])
                if c["exc"] is None:
                    sid = st.get_study_id_from_name(name)
                    c["src"] = full_of(st.get_all_trials(sid, deepcopy=False))
                    c["src_study"] = _study_view(st, sid)
                    sid2 = st2.get_study_id_from_name(to_name)
                    c["dst_client"] = full_of(st2.get_all_trials(sid2, deepcopy=False))
                    c["dst_client_study"] = _study_view(st2, sid2)
                out["copy"] = c

        task = sim.spawn(proc, "w0", body)
        status = sim.run()
        out["status"] = status
        if status == "ok":
            if task.exc is not None:
                raise task.exc
            if out["copy"] is not None and out["copy"]["exc"] is None:
                seams.set_sim(sim, dep.fs if dep.fs is not None else dep2.fs)
                obs = dep2.observer()
                sid2 = obs.get_study_id_from_name(to_name)
                out["copy"]["dst_obs"] = full_of(obs.get_all_trials(sid2, deepcopy=False))
                out["copy"]["dst_obs_study"] = _study_view(obs, sid2)
        elif task.exc is not None and not isinstance(task.exc, sched.SimKilled):
            raise task.exc
    finally:
        if dep2 is not None:
            dep2.close()
        dep.close()
    for k, v in ch.recorded.items():
        merged.recorded[tag + "/" + k] = v
    for k, v in sim.counters.items():
        totals["counters"][k] = totals["counters"].get(k, 0) + v
    totals["sim_seconds"] += sim.now - sim.t0 if sim.now > sim.t0 else 0.0
    totals["steps"] += sim.seq + sim.line_events
    totals["switches"] += sim.switches
    return out


def _study_view(st: Any, sid: int) -> dict:
    return {
        "directions": [d.name for d in st.get_study_directions(sid)],
        "user_attrs": json.dumps(st.get_study_user_attrs(sid), sort_keys=True, default=repr),
        "system_attrs": json.dumps(st.get_study_system_attrs(sid), sort_keys=True, default=repr),
    }


# ====================================================================== the check
def run_plan(plan: dict) -> dict:
    with warnings.catch_warnings():
        warnings.simplefilter("ignore")
        return _run_plan(plan)


def _run_plan(plan: dict) -> dict:
    envs = [e for e in plan.get("envs", []) if isinstance(e, dict) and e.get("kind")]
    sname = plan["sampler"]["name"]
    pname = plan["pruner"]["name"]
    prefix = "%s|%s|" % (ID, sname)
    merged = _Chooser()
    totals: dict[str, Any] = {"counters": {}, "sim_seconds": 0.0, "steps": 0, "switches": 0}
    static = json.dumps([plan["sampler"], plan["pruner"], plan["directions"], [(e.get("id"), e.get("kind")) for e in envs]], sort_keys=True).encode()
    h = hashlib.blake2b(static, digest_size=16)

    def count(k: str, n: int = 1) -> None:
        totals["counters"][k] = totals["counters"].get(k, 0) + n

    def finish(status: str, sig: str | None = None, detail: str = "", nontrivial: bool = False, unstable: bool = False) -> dict:
        nonlocal h
        if unstable:
            # the run itself is not repeatable (that is the verdict): the digest covers only what is
            h = hashlib.blake2b(static, digest_size=16)
            h.update(signature_class(sig or "").encode())
        elif sig is not None:
            h.update(sig.encode())
        tail = ""
        if status != "ok":
            tail = "\n  sampler: %s\n  pruner: %s\n  directions: %s  n_trials: %s  study_name: %s\n  program: %s\n  environments:\n    %s\n  copy -> %s" % (json.dumps(plan["sampler"]), json.dumps(plan["pruner"]), plan["directions"], plan["n_trials"], plan["study_name"], _prog_str(plan["program"]), "\n    ".join(_env_str(e) for e in envs), plan.get("copy", {}).get("kind"))
        return {
            "status": status,
            "signature": sig,
            "detail": detail + tail,
            "digest": h.hexdigest(),
            "nontrivial": nontrivial,
            "counters": dict(totals["counters"]),
            "sim_seconds": totals["sim_seconds"],
            "steps": totals["steps"],
            "switches": totals["switches"],
            "recorded": {"table": dict(merged.recorded)},
        }

    if len(envs) < 2 or not plan["program"].get("params"):
        return finish("inconclusive", prefix + "degenerate|fewer than two environments or no parameters", "degenerate plan")
    count("sampler:" + sname)
    count("pruner:" + pname)
    count("objectives:%d" % len(plan["directions"]))

    def bad_status(r: dict, env: dict) -> dict | None:
        if r["status"] == "deadlock":
            return finish("violation", prefix + "deadlock|%s" % env_label(env), "sequential run deadlocked in environment %s" % _env_str(env))
        if r["status"] != "ok":
            return finish("inconclusive", prefix + r["status"] + "|" + env_label(env), r["status"])
        return None

    # ---- clause 1: the same environment twice
    base_env = envs[0]
    r0 = run_env(plan, base_env, merged, totals)
    b = bad_status(r0, base_env)
    if b:
        return b
    h.update(json.dumps(r0["trace"], sort_keys=True).encode())
    h.update(json.dumps(r0["exc"], sort_keys=True).encode())
    count("env:" + base_env["kind"])
    r0b = run_env(plan, base_env, merged, totals)
    b = bad_status(r0b, base_env)
    if b:
        return b
    if r0["trace"] != r0b["trace"] or r0["exc"] != r0b["exc"]:
        d = first_diff(r0["trace"], r0b["trace"], TRACE_FIELDS) or ("exception", "%s vs %s" % (r0["exc"], r0b["exc"]))
        if sname == "gp" or is_noise(r0["trace"], r0b["trace"]):
            count("excluded:" + sname)
            return finish("inconclusive", prefix + "repeat-noise|%s|%s" % (r0["label"], d[0]), "same-environment repeat differs by numeric noise (sampler not admitted): " + d[1], unstable=True)
        return finish("violation", prefix + "repeat-divergence|%s|%s" % (r0["label"], d[0]), "the same seeded run executed twice in the identical environment (%s) differs: %s" % (_env_str(base_env), d[1]), unstable=True)
    tr = r0["trace"]
    for t in tr:
        count("trials:" + t["state"])
    count("trials", len(tr))
    count("reports", sum(len(t["iv"]) for t in tr))
    if r0["ncalls"] > 1:
        count("splits>1")
    ids_differ = 1 if r0["ids_differ"] else 0

    # ---- clause 2: every other environment
    last = None
    ncmp = 0
    for idx, env in enumerate(envs[1:], start=1):
        is_last = idx == len(envs) - 1
        r = run_env(plan, env, merged, totals, with_copy=is_last and bool(plan.get("copy", {}).get("kind")) and _copy_ok(env, plan["copy"]))
        b = bad_status(r, env)
        if b:
            return b
        h.update(json.dumps(r["trace"], sort_keys=True).encode())
        count("env:" + env["kind"])
        if r["ncalls"] > 1:
            count("splits>1")
        if r["ids_differ"]:
            ids_differ += 1
        ncmp += 1
        if r["trace"] != r0["trace"] or r["exc"] != r0["exc"]:
            d = first_diff(r0["trace"], r["trace"], TRACE_FIELDS)
            if d is None:
                ea, eb = r0["exc"], r["exc"]
                d = ("exception", "exception out of optimize: %s  vs  %s" % (ea, eb))
            extra = ""
            if r0["exc"] or r["exc"]:
                extra = "\n  exceptions out of optimize: %s: %s | %s: %s" % (r0["label"], r0["exc"], r["label"], r["exc"])
            kind_ = "env-divergence"
            ga, gb = base_env["kind"].startswith("grpc("), env["kind"].startswith("grpc(")
            if ga != gb and r0["order"] != r["order"]:
                # Is the divergence explained by the parameter order of trials read through the
                # proxy?  Direct test: re-run the gRPC environment with the order restored.
                genv, ref = (base_env, r) if ga else (env, r0)
                rr = run_env(plan, genv, _Chooser(), {"counters": {}, "sim_seconds": 0.0, "steps": 0, "switches": 0}, reorder=ref["order"])
                if rr.get("status") == "ok" and rr["trace"] == ref["trace"] and rr["exc"] == ref["exc"]:
                    kind_ = "grpc-param-order"
                    extra += "\n  cause: FrozenTrial.params/distributions read through GrpcStorageProxy are not in suggestion order (e.g. %s vs %s); with the order restored on the client the run in %s is identical" % (next((r0["order"][n], r["order"][n], genv["kind"]) for n in sorted(r0["order"]) if n in r["order"] and r0["order"][n] != r["order"][n]))
            if kind_ == "env-divergence" and sname == "nsga2" and (r0["ids_differ"] or r["ids_differ"]):
                # Is it the GA parent cache (trial ids used as list indexes, F7)?  Direct test: re-run
                # the environment(s) whose trial ids differ from the trial numbers with the cached
                # ids resolved by id; the cause is confirmed if the two runs then agree.
                fixed = []
                for e_, r_ in ((base_env, r0), (env, r)):
                    if r_["ids_differ"]:
                        r_ = run_env(plan, e_, _Chooser(), {"counters": {}, "sim_seconds": 0.0, "steps": 0, "switches": 0}, ga_by_id=True)
                    fixed.append(r_)
                if all(x.get("status", "ok") == "ok" for x in fixed) and fixed[0]["trace"] == fixed[1]["trace"] and fixed[0]["exc"] is None and fixed[1]["exc"] is None:
                    kind_ = "ga-parent-cache-by-id"
                    extra += "\n  cause: BaseGASampler.get_parent_population caches trial._trial_id values in the study system attr '%s:parent:<generation>' and later uses them as indexes into the trial list (ordered by number); trial ids differ from trial numbers in %s; with the ids resolved by id both runs are identical" % ("NSGAIISampler", " and ".join(e_.get("id", "?") + "=" + r_["label"] for e_, r_ in ((base_env, r0), (env, r)) if r_["ids_differ"]))
            return finish("violation", prefix + "%s|%s vs %s|%s" % (kind_, r0["label"], r["label"], d[0]), "same seed, same objective, different environment -> different run: %s (left: environment %s, right: environment %s)%s" % (d[1], base_env.get("id"), env.get("id"), extra), nontrivial=True)
        last = (env, r)
    count("env_ids_differ", ids_differ)
    if plan.get("hashseed") is not None:
        rh = _run_under_hashseed(plan, base_env, int(plan["hashseed"]))
        count("hashseed_runs")
        h.update(json.dumps(rh["trace"], sort_keys=True).encode())
        if rh["trace"] != r0["trace"] or rh["exc"] != r0["exc"]:
            d = first_diff(r0["trace"], rh["trace"], TRACE_FIELDS) or ("exception", "exception out of optimize: %s  vs  %s" % (r0["exc"], rh["exc"]))
            return finish("violation", prefix + "hashseed-divergence|%s|%s" % (r0["label"], d[0]), "same plan, same environment (%s), fresh interpreter with PYTHONHASHSEED=%s instead of %s -> different run: %s" % (_env_str(base_env), plan["hashseed"], os.environ.get("PYTHONHASHSEED", "random"), d[1]), nontrivial=True)
    if r0["exc"] is not None:
        e = r0["exc"]
        if sname == "nsga2" and r0["ids_differ"] and e["type"] == "IndexError" and "get_parent_population" in e["where"]:
            # F7 in every environment (none has trial ids == trial numbers): confirm the cause directly
            rr = run_env(plan, base_env, _Chooser(), {"counters": {}, "sim_seconds": 0.0, "steps": 0, "switches": 0}, ga_by_id=True)
            if rr.get("status") == "ok" and rr["exc"] is None:
                return finish("violation", prefix + "ga-parent-cache-by-id|%s (every environment)|IndexError" % r0["label"], "optimize raised in every environment alike (trial ids differ from trial numbers in all of them): %s\n  cause: BaseGASampler.get_parent_population uses the cached trial ids as indexes into the trial list; with the ids resolved by id the run completes" % e, nontrivial=True)
        # An exception that is the same in every environment is reproducible: not a C09 matter.
        # It is made visible (inconclusive + counter) because the run could not be completed.
        count("exception_everywhere:%s:%s at %s" % (sname, e["type"], e["where"]))
        return finish("inconclusive", prefix + "exception-everywhere|%s at %s" % (e["type"], e["where"]), "optimize raised in every environment alike (reproducible, hence no C09 violation): %s" % e)
    nontrivial = len(tr) >= 4 and ncmp >= 1 and ids_differ >= 1

    # ---- clause 3: copy_study
    if last is not None and last[1]["copy"] is not None:
        env, r = last
        c = r["copy"]
        route = "%s->%s" % (r["label"], plan["copy"]["kind"])
        count("copy:%s->%s" % (_inner(env["kind"]) if not env["kind"].startswith("grpc") else "grpc", _inner(plan["copy"]["kind"]) if not plan["copy"]["kind"].startswith("grpc") else "grpc"))
        if c["exc"] is not None:
            return finish("violation", prefix + "copy-exception|%s|%s" % (route, c["exc"][:120]), "copy_study raised: " + c["exc"], nontrivial=nontrivial)
        h.update(json.dumps(c["src"], sort_keys=True).encode())
        if trace_of_full(c["src"]) != r["trace"]:
            raise _HarnessBug("source storage re-read differs from the study's own view")
        for view in ("dst_client", "dst_obs"):
            d = first_diff(c["src"], c[view], FULL_FIELDS)
            if d is not None:
                return finish("violation", prefix + "copy-mismatch|%s|%s" % (route, d[0].split(" ", 2)[-1] if d[0].startswith("trial ") and d[0] != "trial count" else d[0]), "copy_study %s: copied study (%s view) differs from the source: %s" % (route, "client" if view == "dst_client" else "fresh observer", d[1]), nontrivial=nontrivial)
            if c["src_study"] != c[view + "_study"]:
                k = [f for f in ("directions", "user_attrs", "system_attrs") if c["src_study"][f] != c[view + "_study"][f]][0]
                return finish("violation", prefix + "copy-mismatch|%s|study %s" % (route, k), "copy_study %s: study %s differ: %s vs %s" % (route, k, c["src_study"][k][:300], c[view + "_study"][k][:300]), nontrivial=nontrivial)
        count("copied_trials", len(c["src"]))
        count("copied_with_intermediate", sum(1 for t in c["src"] if t["iv"]))
        count("copied_with_system_attrs", sum(1 for t in c["src"] if t["system_attrs"] != "{}"))
    return finish("ok", nontrivial=nontrivial)


def _run_under_hashseed(plan: dict, env: dict, hashseed: int) -> dict:
    """Run one environment of the plan in a fresh interpreter under another PYTHONHASHSEED."""
    import subprocess
    import sys

    root = os.path.dirname(os.path.dirname(os.path.abspath(__file__)))
    child_env = dict(os.environ)
    child_env["PYTHONHASHSEED"] = str(hashseed)
    child_env["PYTHONPATH"] = root + os.pathsep + child_env.get("PYTHONPATH", "")
    code = "import sys; from checks import c09_repro as c; sys.exit(c._hashseed_child())"
    p = subprocess.run([sys.executable, "-c", code], input=json.dumps({"plan": plan, "env": env}).encode(), stdout=subprocess.PIPE, stderr=subprocess.PIPE, env=child_env, cwd=root, timeout=600)
    lines = [ln for ln in p.stdout.decode().splitlines() if ln.startswith("C09CHILD ")]
    if p.returncode != 0 or not lines:
        raise _HarnessBug("hash-seed child failed (exit %s): %s" % (p.returncode, p.stderr.decode()[-1500:]))
    return json.loads(lines[-1][len("C09CHILD ") :])


def _hashseed_child() -> int:
    import sys

    import optuna

    optuna.logging.set_verbosity(optuna.logging.CRITICAL)
    warnings.simplefilter("ignore")
    req = json.loads(sys.stdin.read())
    r = run_env(req["plan"], req["env"], _Chooser(), {"counters": {}, "sim_seconds": 0.0, "steps": 0, "switches": 0})
    if r.get("status") != "ok":
        return 3
    print("C09CHILD " + json.dumps({"trace": r["trace"], "exc": r["exc"]}))
    return 0


def trace_of_full(full: list) -> list:
    return [{k: t[k] for k in ("n", "state", "values", "params", "iv")} for t in full]


def _copy_ok(env: dict, cp: dict) -> bool:
    """Source and target live in one simulation: the SQLite file, SimFS and the server names are
    per-simulation singletons (plans shrunk by ddmin may violate what gen_plan guaranteed)."""
    a, b = env["kind"], cp.get("kind", "")
    if _inner(a) in SQLITE_INNER and _inner(b) in SQLITE_INNER:
        return False
    if _inner(a).startswith("jf") and _inner(b).startswith("jf"):
        return False
    if a.startswith("grpc(") and b.startswith("grpc("):
        return False
    return True
