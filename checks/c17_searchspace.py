"""C17 - incrementally inferred search spaces equal a from-scratch computation.

Up to 3 simulated workers run per-worker scripts of study-level calls (ask, suggest_*,
tell as COMPLETE/PRUNED/FAIL in an order unrelated to creation - also of other workers'
trials -, enqueue_trial, add_trial of an already finished trial, die with trials left
RUNNING) interleaved at call granularity; in "open_asks" plans ask/enqueue_trial of different
workers additionally interleave at the seams inside them (that is the only way a WAITING
trial gets a number below a trial created by ask).  `IntersectionSearchSpace` and
`_GroupDecomposedSearchSpace` objects (include_pruned False and True) are created once per
"context" (= one Study object; workers that share a context are threads sharing the Study,
other contexts are other Study objects / processes on the same storage) and consulted at the
`consult` ops of the scripts, i.e. at scheduler-chosen points between the other workers'
calls, so that the cursor of the incremental calculation is parked below unfinished trials
that later finish out of order.

Oracle at every consultation (same instant, nothing else runs in between):
  * calculate(study) == optuna.search_space.intersection_search_space(study.get_trials(), ip)
    == an independent from-scratch intersection written here;
  * once an eligible finished trial exists, the (name, distribution) items never grow;
  * the groups are non-empty, pairwise disjoint, their union is the set of all parameter
    names of eligible finished trials, and each such trial's name set is a union of groups.
"""
from __future__ import annotations

import copy
import json
import os
import pickle
from typing import Any

from checks import common
from simkit import deploy, sched

ID = "C17"
LEVEL = "exploration"
BUDGET = {"quick": 45, "thorough": 900}

DEPLOYMENTS = [
    ("mem", 5.0),
    ("jf-sym", 3.0),
    ("cached", 0.15),
    ("rdb", 0.1),
    ("grpc(mem)", 0.8),
]

EVIDENCE = {
    "rule": "one case = one simulated execution of a generated plan (deployment, 1-3 worker scripts of 6-24 study-level calls (6-14 on rdb/cached/grpc), 1-3 Study/calculator contexts, scheduler decisions from the sched PRNG stream) with 4 calculator objects per context checked at every consult op and once more at the end. Non-trivial = some calculator was consulted while an unfinished (RUNNING/WAITING) trial had a lower number than an eligible finished one (cursor parked) and consulted again after that trial had finished; distinct = distinct event-order digests (every scheduling decision, every call result and every consultation result is hashed).",
    "assumptions": [
        "interleaving is at call granularity: one study-level call (ask, suggest_*, tell, enqueue_trial, add_trial, calculate) at a time, except that in open_asks plans (60%) ask/enqueue_trial calls of different workers overlap and interleave at their seams; interleavings inside storage calls are C03's subject",
        "one calculator object is only ever given one Study object (threads of one process share both); other processes have their own Study object and their own calculators",
        "the oracle reads through the same Study object as the calculator while no other call is in flight (exclusive gate + sim.atomic(); for grpc the gate only, because the server tasks must run)",
        "samplers are RandomSampler with a fixed seed; parameter values play no role in the property",
        "a distribution kind/log/choices incompatible with an earlier use of the name in the study raises ValueError (documented); the worker then fails that trial",
    ],
    "components": {
        "real": "optuna.search_space (IntersectionSearchSpace, intersection_search_space, _GroupDecomposedSearchSpace), Study.ask/tell/enqueue_trial/add_trial/get_trials, Trial.suggest_*, storages (in-memory, journal file, RDB on sqlite3, _CachedStorage, gRPC proxy + servicer over in-memory)",
        "stub": "OS scheduler, threading locks, clocks, uuid, journal file system (SimFS), gRPC transport and server pool (SimNet)",
    },
}

# name -> (primary distribution, variants).  Some variants are merely different (other range or
# step: accepted, and the name drops out of the intersection), some are incompatible with the
# primary one (different kind / log / categorical choices): the storage raises ValueError once
# the name has been used in the study with the other kind.
F = lambda lo, hi, step=None, log=False: {"k": "float", "low": lo, "high": hi, "step": step, "log": log}  # noqa: E731
I = lambda lo, hi, step=1, log=False: {"k": "int", "low": lo, "high": hi, "step": step, "log": log}  # noqa: E731
C = lambda *ch: {"k": "cat", "choices": list(ch)}  # noqa: E731
POOL: dict[str, tuple[dict, list[dict]]] = {
    "x": (F(0.0, 1.0), [F(0.0, 2.0), F(0.0, 1.0, step=0.25), F(0.5, 1.0, log=True), I(0, 3)]),
    "y": (I(0, 5), [I(0, 10), I(0, 6, step=2), I(1, 5, log=True)]),
    "z": (F(-1.0, 1.0), [F(-2.0, 2.0), F(-1.0, 1.0)]),
    "c": (C("a", "b"), [C("a", "b", "c"), C("a", "b")]),
    "k": (I(1, 4), [F(1.0, 4.0), I(1, 8)]),
}
ENQ = {"x": [0.5, 0.25, 1.5], "y": [2, 4, 7], "z": [0.0, -1.5], "c": ["a", "b", "c"], "k": [1, 3]}


def deployments() -> list[tuple[str, float]]:
    only = os.environ.get("VERIF_DEPLOYMENTS")
    return [(k, w) for k, w in DEPLOYMENTS if not only or k in only.split(",")]


# ---------------------------------------------------------------------- generation
def gen_plan(seed: int, run: int, tier: str) -> dict:
    rng = common.rng_for(seed, run, "work")
    kind = common.weighted(rng, deployments())
    nw = rng.choice([1, 2, 2, 3, 3])
    names = ["w%d" % i for i in range(nw)]
    # contexts: which Study object (+ calculators) a worker uses, and in which process it lives
    mode = rng.choice(["shared", "shared", "own", "mixed"])
    if mode == "shared":
        wctx = {n: 0 for n in names}
    elif mode == "own":
        wctx = {n: i for i, n in enumerate(names)}
    else:
        wctx = {n: min(i, 1) for i, n in enumerate(names)}
    nctx = max(wctx.values()) + 1
    same_proc = kind == "mem" or rng.random() < 0.25
    ctxs = [{"proc": "P0" if same_proc else "P%d" % i} for i in range(nctx)]
    pool_names = sorted(POOL)[: rng.choice([2, 3, 4, 5])]
    p_variant = rng.choice([0.0, 0.05, 0.15, 0.3])
    p_inc = rng.choice([0.5, 0.8, 0.95])  # chance that a trial suggests a pool name right after ask
    p_enq = rng.choice([0.03, 0.08, 0.2])
    p_add = rng.choice([0.0, 0.04, 0.1])
    big = tier != "quick"
    scripts: dict[str, list[dict]] = {n: [] for n in names}
    open_own: dict[str, list[str]] = {n: [] for n in names}
    nslot = {n: 0 for n in names}
    all_slots: list[str] = []
    told: set[str] = set()
    slow = kind in ("rdb", "cached") or kind.startswith("grpc(")  # 10-20x the cost per call: shorter scripts
    budget = {n: rng.randint(6, (34 if big else 24) if not slow else 14) for n in names}
    value = [0]

    def pick_dist(name: str) -> dict:
        prim, var = POOL[name]
        return rng.choice(var) if rng.random() < p_variant else prim

    def tell_state() -> str:
        return common.weighted(rng, [("COMPLETE", 5.0), ("PRUNED", 2.0), ("FAIL", 1.2)])

    def tell_op(slot: str) -> dict:
        value[0] += 1
        told.add(slot)
        return {"op": "tell", "slot": slot, "state": tell_state(), "value": float(value[0] % 7)}

    # the scripts grow in random alternation so that cross-worker references mostly exist at run time
    live = list(names)
    while live:
        n = rng.choice(live)
        s = scripts[n]
        if len(s) >= budget[n]:
            live.remove(n)
            continue
        mine = [x for x in open_own[n] if x not in told]
        r = rng.random()
        if r < 0.18 or (not mine and r < 0.45):
            if len(mine) >= 3:
                continue
            slot = "%s.%d" % (n, nslot[n])
            nslot[n] += 1
            s.append({"op": "ask", "slot": slot})
            open_own[n].append(slot)
            all_slots.append(slot)
            for name in pool_names:
                if rng.random() < p_inc:
                    s.append({"op": "suggest", "slot": slot, "name": name, "dist": pick_dist(name)})
        elif r < 0.28:
            if not mine:
                continue
            name = rng.choice(pool_names)
            s.append({"op": "suggest", "slot": rng.choice(mine), "name": name, "dist": pick_dist(name)})
        elif r < 0.52:
            cands = mine
            if rng.random() < 0.25:
                cands = [x for x in all_slots if x not in told]
            if not cands:
                continue
            s.append(tell_op(rng.choice(cands)))
        elif r < 0.52 + p_enq:
            ks = rng.sample(pool_names, rng.randint(0, min(2, len(pool_names))))
            s.append({"op": "enqueue", "params": {k: rng.choice(ENQ[k]) for k in sorted(ks)}})
        elif r < 0.52 + p_enq + p_add:
            # a trial created already finished (Study.add_trial): lands above any WAITING trial
            ks = [k for k in pool_names if rng.random() < p_inc]
            value[0] += 1
            # "reuse": the worker keeps one FrozenTrial object, rewrites its fields in place and
            # adds it again (the storage must have taken its own copy each time)
            s.append({"op": "add", "state": tell_state(), "value": float(value[0] % 7), "dists": {k: POOL[k][0] for k in ks}, "reuse": rng.random() < 0.5})
        elif rng.random() < 0.12:
            # the calculators go through pickle / deepcopy (samplers holding them are pickled
            # for workers, studies are deep-copied) and are used on afterwards
            s.append({"op": "reopen", "how": rng.choice(["pickle", "deepcopy"])})
        else:
            s.append({"op": "consult"})
    for n in names:
        if rng.random() < 0.3:
            scripts[n].append({"op": "die"})
            continue
        for slot in open_own[n]:
            if slot not in told and rng.random() < 0.7:
                scripts[n].append(tell_op(slot))
                if rng.random() < 0.5:
                    scripts[n].append({"op": "consult"})
    cfg = {
        "deployment": kind,
        "p_line": 0.0,
        "p_seam": rng.choice([0.3, 0.6, 0.9]),
        "read_block": 8192,
        "chunked_write": False,
        "snapshot_interval": rng.choice([3, 100]),
        "pool": rng.choice([1, 2, 4]),
        "sampler_seed": rng.randrange(1000),
        "open_asks": rng.random() < 0.6,
    }
    return {"check": ID, "seed": seed, "run": run, "cfg": cfg, "ctxs": ctxs, "wctx": wctx, "workers": scripts, "sched": {"seed": rng.getrandbits(48)}}


def shrink_paths(plan: dict) -> list[tuple]:
    return [("workers", n) for n in sorted(plan["workers"])] + [("sched", "table")]


def signature_class(sig: str) -> str:
    return "|".join(sig.split("|")[:3])


def _short(o: dict) -> str:
    k = o["op"]
    if k == "ask":
        return "ask %s" % o["slot"]
    if k == "suggest":
        d = o["dist"]
        ds = "cat%s" % d["choices"] if d["k"] == "cat" else "%s(%s,%s%s%s)" % (d["k"], d["low"], d["high"], ",step=%s" % d["step"] if d["step"] not in (None, 1) else "", ",log" if d["log"] else "")
        return "suggest %s %s %s" % (o["slot"], o["name"], ds)
    if k == "tell":
        return "tell %s %s" % (o["slot"], o["state"])
    if k == "enqueue":
        return "enqueue %s" % json.dumps(o["params"], sort_keys=True)
    if k == "add":
        return "add_trial %s %s" % (o["state"], sorted(o["dists"]))
    return k


def sample_view(plan: dict, res: dict) -> dict:
    return {
        "deployment": plan["cfg"]["deployment"],
        "contexts": plan["ctxs"],
        "workers": {n: {"ctx": plan["wctx"].get(n, 0), "ops": [_short(o) for o in ops]} for n, ops in sorted(plan["workers"].items())},
        "switches": res["switches"],
        "status": res["status"],
    }


# ---------------------------------------------------------------------- execution
def run_plan(plan: dict) -> dict:
    cfg = plan["cfg"]
    ch = common.make_chooser(plan)
    sim = sched.Sim(ch, trace_suffixes=(), max_steps=200000, uuid_salt=str(plan.get("run", 0)))
    dep = deploy.Deployment(sim, cfg["deployment"], cfg)
    try:
        return _run(plan, sim, ch, dep)
    finally:
        dep.close()


class _Violation(Exception):
    def __init__(self, kind: str, why: str, detail: str) -> None:
        super().__init__(kind)
        self.kind = kind
        self.why = why
        self.detail = detail


def _mkdist(d: dict) -> Any:
    from optuna.distributions import CategoricalDistribution, FloatDistribution, IntDistribution

    if d["k"] == "float":
        return FloatDistribution(d["low"], d["high"], log=d["log"], step=d["step"])
    if d["k"] == "int":
        return IntDistribution(d["low"], d["high"], log=d["log"], step=d["step"])
    return CategoricalDistribution(d["choices"])


def _suggest(trial: Any, name: str, d: dict) -> Any:
    if d["k"] == "float":
        return trial.suggest_float(name, d["low"], d["high"], step=d["step"], log=d["log"])
    if d["k"] == "int":
        return trial.suggest_int(name, d["low"], d["high"], step=d["step"], log=d["log"])
    return trial.suggest_categorical(name, d["choices"])


def _lowest(d: dict) -> Any:
    return d["choices"][0] if d["k"] == "cat" else d["low"]


def _dshow(space: dict) -> str:
    return "{" + ", ".join("%s: %r" % (k, space[k]) for k in sorted(space)) + "}"


class _Ctx:
    """One Study object and the calculators that are only ever given that object."""

    def __init__(self, study: Any) -> None:
        from optuna.search_space import IntersectionSearchSpace, _GroupDecomposedSearchSpace

        self.study = study
        self.inter = {ip: IntersectionSearchSpace(include_pruned=ip) for ip in (False, True)}
        self.group = {ip: _GroupDecomposedSearchSpace(include_pruned=ip) for ip in (False, True)}
        self.established: dict[bool, dict | None] = {False: None, True: None}  # last result once established
        self.parked: dict[bool, set] = {False: set(), True: set()}  # trial numbers seen unfinished below a finished one
        self.consults = 0
        self.late_seen = False


def _consult(sim: Any, ctx: _Ctx, who: str, trace: list[str]) -> None:
    """All four calculators of a context against the from-scratch oracles.  Must run with
    no other call in flight (exclusive gate, atomic where possible; or the harness thread)."""
    from optuna.search_space import intersection_search_space
    from optuna.trial import TrialState

    study = ctx.study
    ctx.consults += 1
    sim.count("consultations")
    trials = study.get_trials(deepcopy=False)  # the oracle's own read: same instant as the calculators' reads
    for ip in (False, True):
        calc = ctx.inter[ip]
        try:
            got = calc.calculate(study)
        except Exception as e:  # noqa
            raise _Violation("intersection-exception", "ip=%s %s" % (ip, type(e).__name__), "calculate raised %r" % (e,))
        want = intersection_search_space(trials, include_pruned=ip)
        ok_states = (TrialState.COMPLETE, TrialState.PRUNED) if ip else (TrialState.COMPLETE,)
        elig = [t for t in trials if t.state in ok_states]
        # independent from-scratch intersection
        indep: dict[str, Any] = {}
        if elig:
            for name, dist in elig[0].distributions.items():
                if all(name in t.distributions and t.distributions[name] == dist for t in elig[1:]):
                    indep[name] = dist
        states = " ".join("%d:%s%s" % (t.number, t.state.name[0], sorted(t.distributions)) for t in trials)
        sim.note("consult", who, ip, sorted(got), repr([got[k] for k in sorted(got)]))
        if sorted(want) != sorted(indep) or any(want[k] != indep[k] for k in want):
            raise _Violation("scratch-neq-independent", "ip=%s" % ip, "intersection_search_space=%s independent=%s trials: %s" % (_dshow(want), _dshow(indep), states))
        if sorted(got) != sorted(want) or any(got[k] != want[k] for k in got):
            raise _Violation("intersection-neq", "ip=%s" % ip, "consultation #%d by %s: incremental=%s from-scratch=%s trials: %s" % (ctx.consults, who, _dshow(got), _dshow(want), states))
        if list(got) != sorted(got):
            raise _Violation("intersection-unsorted", "ip=%s" % ip, "keys %s" % list(got))
        prev = ctx.established[ip]
        if prev is not None:
            grown = [k for k in got if k not in prev or prev[k] != got[k]]
            if grown:
                raise _Violation("intersection-grew", "ip=%s" % ip, "consultation #%d by %s: before=%s now=%s trials: %s" % (ctx.consults, who, _dshow(prev), _dshow(got), states))
        if elig:
            ctx.established[ip] = got
        # evidence probes: cursor parked below a finished trial / that trial finished later
        hi = max([t.number for t in elig], default=-1)
        unfinished_below = {t.number for t in trials if not t.state.is_finished() and t.number < hi}
        if unfinished_below:
            sim.count("consult_with_unfinished_below_finished")
        top = max([t.number for t in trials if t.state != TrialState.WAITING], default=-1)
        if not ip and any(t.state == TrialState.WAITING and t.number < top for t in trials):
            sim.count("consult_with_waiting_below_started_trial")
        by_number = {t.number: t for t in trials}
        late = {n for n in ctx.parked[ip] if n in by_number and by_number[n].state in ok_states}
        if late:
            sim.count("consult_after_out_of_order_finish")
            ctx.late_seen = True
        gone = {n for n in ctx.parked[ip] if n in by_number and by_number[n].state.is_finished()}
        ctx.parked[ip] = (ctx.parked[ip] - gone) | unfinished_below
        # ---- group decomposition
        try:
            groups = [dict(g) for g in ctx.group[ip].calculate(study).search_spaces]
        except Exception as e:  # noqa
            raise _Violation("group-exception", "ip=%s %s" % (ip, type(e).__name__), "calculate raised %r" % (e,))
        gsets = [sorted(g) for g in groups]
        sim.note("groups", who, ip, sorted(gsets))
        gshow = "groups=%s trials: %s" % (sorted(gsets), states)
        if any(len(g) == 0 for g in gsets):
            raise _Violation("group-empty", "ip=%s" % ip, gshow)
        flat = [n for g in gsets for n in g]
        if len(flat) != len(set(flat)):
            raise _Violation("group-overlap", "ip=%s" % ip, gshow)
        seen = set()
        for t in elig:
            seen.update(t.distributions)
        if set(flat) != seen:
            raise _Violation("group-union", "ip=%s" % ip, "union of groups %s != parameters of finished trials %s; %s" % (sorted(flat), sorted(seen), gshow))
        for t in elig:
            ps = set(t.distributions)
            for g in gsets:
                gs = set(g)
                if gs & ps and not gs <= ps:
                    raise _Violation("group-not-union", "ip=%s" % ip, "trial %d params %s cut group %s; %s" % (t.number, sorted(ps), g, gshow))
    trace.append("%s consult #%d ok" % (who, ctx.consults))


def _run(plan: dict, sim: sched.Sim, ch: sched.Chooser, dep: deploy.Deployment) -> dict:
    import optuna
    from optuna.trial import TrialState

    cfg = plan["cfg"]
    kind = cfg["deployment"]
    prefix = "%s|%s|" % (ID, kind)
    # Gate: calculators are consulted (and suggest/tell run) *exclusively* - no other call in
    # flight - so that the oracle reads the very state the calculator read.  ask/enqueue may be
    # "open": several in flight, interleaved at the seams inside them (a trial enqueued between
    # the two storage calls of another worker's ask() gets a number below a RUNNING trial).
    # Exclusive sections are additionally atomic, except on grpc where the server tasks must run.
    can_atomic = not kind.startswith("grpc(")
    open_calls = ("ask", "enqueue") if cfg.get("open_asks") else ()
    gate = {"inflight": 0, "excl": False}

    class api:
        def __init__(self, shared: bool) -> None:
            self.shared = shared

        def __enter__(self) -> None:
            if self.shared:
                sim.block_until(lambda: not gate["excl"], "gate")
                gate["inflight"] += 1
            else:
                sim.block_until(lambda: not gate["excl"] and gate["inflight"] == 0, "gate")
                gate["excl"] = True
                if can_atomic:
                    sim.atomic_depth += 1

        def __exit__(self, *a: Any) -> None:
            if self.shared:
                gate["inflight"] -= 1
            else:
                gate["excl"] = False
                if can_atomic:
                    sim.atomic_depth -= 1

    # ---- contexts (harness thread, before the simulation starts)
    procs: dict[str, Any] = {}
    ctxs: list[_Ctx] = []
    for i, c in enumerate(plan["ctxs"]):
        if c["proc"] not in procs:
            procs[c["proc"]] = sim.proc(c["proc"])
        st = dep.client(procs[c["proc"]])
        sampler = optuna.samplers.RandomSampler(seed=cfg["sampler_seed"] + i)
        if i == 0:
            study = optuna.create_study(storage=st, study_name="c17", sampler=sampler)
        else:
            study = optuna.load_study(storage=st, study_name="c17", sampler=sampler)
        ctxs.append(_Ctx(study))
    slots: dict[str, dict] = {}
    verdict: list[_Violation] = []
    trace: list[str] = []

    reusable: dict[str, Any] = {}

    def make_worker(name: str, script: list[dict]) -> Any:
        ctx = ctxs[min(plan["wctx"].get(name, 0), len(ctxs) - 1)]
        study = ctx.study

        def fail_trial(slot: dict) -> None:
            study.tell(slot["trial"], state=TrialState.FAIL)
            slot["fin"] = True

        def body() -> None:
            for op in script:
                sim.seam("step")
                if verdict:
                    return
                k = op["op"]
                if k == "die":
                    sim.count("worker_died")
                    sim.note(name, "die")
                    return
                with api(k in open_calls):
                    if verdict:
                        return
                    if k == "ask":
                        if op["slot"] in slots:
                            continue
                        t = study.ask()
                        slots[op["slot"]] = {"trial": t, "number": t.number, "owner": name, "fin": False}
                        sim.note(name, "ask", t.number)
                        trace.append("%s ask -> #%d" % (name, t.number))
                    elif k == "suggest":
                        s = slots.get(op["slot"])
                        if s is None or s["fin"] or s["owner"] != name:
                            continue
                        try:
                            v = _suggest(s["trial"], op["name"], op["dist"])
                            sim.note(name, "suggest", s["number"], op["name"], repr(v))
                            trace.append("%s #%d %s" % (name, s["number"], _short(op)))
                        except ValueError as e:
                            # incompatible distribution for a name already used in the study
                            # (or in this trial): documented; the worker fails the trial
                            sim.count("suggest_incompatible")
                            sim.note(name, "suggest", s["number"], op["name"], "ValueError")
                            trace.append("%s #%d %s -> ValueError(%s); FAIL" % (name, s["number"], _short(op), str(e)[:60]))
                            fail_trial(s)
                    elif k == "tell":
                        s = slots.get(op["slot"])
                        if s is None or s["fin"]:
                            continue
                        st = TrialState[op["state"]]
                        if st == TrialState.COMPLETE:
                            study.tell(s["number"], op.get("value", 0.0), state=st)
                        else:
                            study.tell(s["number"], state=st)
                        s["fin"] = True
                        if s["owner"] != name:
                            sim.count("tell_by_other_worker")
                        sim.note(name, "tell", s["number"], op["state"])
                        trace.append("%s tell #%d %s" % (name, s["number"], op["state"]))
                    elif k == "enqueue":
                        study.enqueue_trial(op["params"])
                        sim.count("enqueued")
                        sim.note(name, "enqueue", json.dumps(op["params"], sort_keys=True))
                        trace.append("%s %s" % (name, _short(op)))
                    elif k == "add":
                        st = TrialState[op["state"]]
                        dists = {n_: _mkdist(d) for n_, d in sorted(op["dists"].items())}
                        params = {n_: _lowest(d) for n_, d in sorted(op["dists"].items())}
                        ft = optuna.trial.create_trial(state=st, value=op.get("value", 0.0) if st == TrialState.COMPLETE else None, params=params, distributions=dists)
                        if op.get("reuse"):
                            old = reusable.get(name)
                            if old is None:
                                reusable[name] = ft
                            else:
                                # same object as last time, every field rewritten in place
                                old.params.clear()
                                old.params.update(params)
                                old.distributions.clear()
                                old.distributions.update(dists)
                                old.state = st
                                old.values = ft.values
                                old.datetime_complete = ft.datetime_complete
                                ft = old
                                sim.count("added_reused_object")
                        try:
                            study.add_trial(ft)
                            sim.count("added_finished")
                            sim.note(name, "add", op["state"], sorted(dists))
                            trace.append("%s %s" % (name, _short(op)))
                        except ValueError:
                            # name already used in the study with an incompatible distribution
                            sim.count("add_incompatible")
                            sim.note(name, "add", "ValueError")
                    elif k == "reopen":
                        for ip in (False, True):
                            for d in (ctx.inter, ctx.group):
                                d[ip] = pickle.loads(pickle.dumps(d[ip])) if op.get("how") == "pickle" else copy.deepcopy(d[ip])
                        sim.count("calculators_reopened:" + str(op.get("how")))
                        sim.note(name, "reopen", op.get("how"))
                        trace.append("%s calculators re-created by %s" % (name, op.get("how")))
                    elif k == "consult":
                        try:
                            _consult(sim, ctx, name, trace)
                        except _Violation as v:
                            verdict.append(v)
                            return

        return body

    tasks = []
    for n, script in sorted(plan["workers"].items()):
        c = plan["ctxs"][min(plan["wctx"].get(n, 0), len(ctxs) - 1)]
        tasks.append(sim.spawn(procs[c["proc"]], n, make_worker(n, script)))
    status = sim.run()
    for t in tasks:
        if t.exc is not None and not isinstance(t.exc, sched.SimKilled):
            raise RuntimeError("worker %s died: %r" % (t.name, t.exc)) from t.exc
    if status == "deadlock":
        raise RuntimeError("deadlock: " + "; ".join("%s blocked on %s" % (t.name, t.blocked_why) for t in tasks if not t.done))
    if status != "ok":
        return common.result(sim, ch, "inconclusive", None, status, nontrivial=False)
    if not verdict:
        # final consultation of every context from the harness thread (nothing else runs)
        for i, ctx in enumerate(ctxs):
            try:
                _consult(sim, ctx, "final%d" % i, trace)
            except _Violation as v:
                verdict.append(v)
                break
    nontrivial = any(c.late_seen for c in ctxs)
    if verdict:
        v = verdict[0]
        detail = v.detail + "\n  calls so far:\n    " + "\n    ".join(trace[-40:])
        return common.result(sim, ch, "violation", prefix + v.kind + "|" + v.why, detail, nontrivial=nontrivial)
    finals = ctxs[0].study.get_trials(deepcopy=False)
    extra = {
        "trials": len(finals),
        "left_running": sum(1 for t in finals if t.state == TrialState.RUNNING),
        "left_waiting": sum(1 for t in finals if t.state == TrialState.WAITING),
        "runs_space_nonempty_at_end": 1 if any(c.established[True] for c in ctxs) else 0,
    }
    return common.result(sim, ch, "ok", nontrivial=nontrivial, extra_counters=extra)
