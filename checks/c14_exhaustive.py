"""C14 - exhaustive samplers visit every point exactly once, then stop.

One case = one generated finite define-by-run program (a tree of conditional suggests over
categoricals, stepped ints/floats, single-value domains, shared sub-spaces) or one generated
grid, one sampler configuration, one deployment and one list of *chunks*: each chunk is one
`study.optimize` call with its own budget (`n_trials`, stopping callback) and its own faults
(the objective fails / is pruned / raises KeyboardInterrupt / raises an uncaught exception /
the process is killed - always after the last suggest of the trial), followed by a resume
style: the same objects, new sampler+study objects in the same process, or a restart in a
new simulated process with the study loaded from the durable medium.

Oracle (DESIGN.md, C14): the run is resumed only while some leaf is unvisited; a leaf must
never be evaluated twice (finished evaluations: complete, failed, pruned, interrupted); an
`optimize` call that still had budget and returned without exception ("stopped by itself")
must have visited every leaf; once every leaf is visited inside a call that call must not
start another trial.  If exhaustion coincides with the end of a bounded chunk, a stopping
callback or an interrupt, self-stopping is not observable: only exactly-once is checked and
the run is counted as `exhausted_at_boundary`.

Extension over DESIGN.md (which injects no hard kills): a `kill` fault (kill -9 of the
simulated process after the last suggest, trial left RUNNING for ever, forced restart) is
injected only for GridSampler and BruteForceSampler(avoid_premature_stop=True) on durable
deployments - the two configurations that promise coverage regardless of running trials.
Without a stale RUNNING trial the samplers' running-trial handling is dead code in a
sequential run (mutant "RUNNING counts as finished" would be equivalent).  The killed
evaluation is not a visit; the resumed run must still evaluate that combination once.
`VERIF_C14_NO_KILLS=1` switches the extension off.

Heartbeat mode (added for seeded change C14-14): see `cfg["hb"]` in gen_plan and DESIGN.md C14,
"Heartbeat recovery".
"""
from __future__ import annotations

import decimal
import itertools
import json
import random
from typing import Any

from checks import common
from simkit import deploy, sched, seams

ID = "C14"
LEVEL = "exploration"
BUDGET = {"quick": 45, "thorough": 900}

DEPLOYMENTS = [("mem", 3.0), ("jf-sym", 3.0), ("jr", 1.5), ("rdb", 0.8)]
DURABLE = {"rdb", "jf-sym", "jr"}
WRITE_SEAMS = ("fs.write", "sql.commit", "redis.eval")
STUDY_NAME = "c14"
MAX_LEAVES = 30

EVIDENCE = {
    "rule": "one case = one generated program tree (depth<=3, <=3 children per node, <=30 leaves; or a grid of <=27 points), one sampler configuration (BruteForceSampler seed/avoid_premature_stop, or GridSampler seed), one deployment, and one chunk list (per optimize call: n_trials / stopping callback / fault per trial index / resume style). Non-trivial = at least 3 leaves and (some fault fired or the run was split over >=2 optimize calls); distinct = distinct digests of the evaluation order with outcomes and chunk endings.",
    "assumptions": [
        "sequential only: one optimize call at a time, n_jobs=1 (the property says sequential)",
        "a parameter name keeps its kind (and categorical choices, log flag) throughout a program, as the storage requires; an int/float name may have a different range at a different tree node (the sampler's docstring example), never two ranges at the same node",
        "fail/prune/interrupt faults are injected after the last suggest of a trial (before that the evaluated combination is not determined); process kills also after 0, 1 or 2 suggest calls and inside ask() right before its n-th storage write (the trial may then not exist yet)",
        "a finished search is never resumed (BruteForceSampler/GridSampler re-evaluate a point by design when optimize is called on an exhausted study)",
        "failed, pruned and interrupted evaluations count as visits (as both samplers define); an evaluation cut by a process kill does not (its trial stays RUNNING)",
        "process kills (trial left RUNNING forever) on the durable deployments. GridSampler and BruteForceSampler(avoid_premature_stop=True) promise coverage regardless of running trials: every leaf exactly once. BruteForceSampler(avoid_premature_stop=False) documents that the position held by a running trial counts as taken: leaves below the parameter prefix p at which a worker died may stay unvisited as long as no other trial went below p (once one did, p's node is expanded, the mark on it is void and everything below must be visited); everything else exactly once, and the search stops by itself when only such leaves are left",
        "heartbeat mode (rdb, BruteForceSampler(avoid_premature_stop=False), RDBStorage with heartbeat_interval/grace_period and RetryFailedTrialCallback, evaluations take 1-6 s of virtual time, kills after the last suggest only, restart at once): the leaf of a dead worker's trial stays excused only until a trial starts more than grace + interval + 2 s after the death of a worker whose trial had a heartbeat row; from then on optimize()'s sweep before every ask must have failed it and its retry must be evaluated - the leaf is owed like any other. A dead trial copied by copy_study has no heartbeat row and stays excused. The trial failed by the sweep is not an evaluation",
        "GridSampler is always re-created with the same seed (grid ids index the seed-shuffled grid); BruteForceSampler is re-created with the same or a different seed; BruteForceSampler(seed=None) is not run (non-deterministic order, equivalent to some seed)",
        "exhaustion coinciding with a chunk end / stopping callback / interrupt: exactly-once only (counter exhausted_at_boundary:*)",
    ],
    "components": {
        "real": "optuna Study.optimize/ask/tell, Trial.suggest_*, BruteForceSampler, GridSampler, distributions, InMemoryStorage, JournalStorage+JournalFileBackend (symlink lock), JournalStorage+JournalRedisBackend, RDBStorage on sqlite3 via SQLAlchemy, load_study, copy_study",
        "stub": "OS scheduler/processes (simkit), journal file system (SimFS), Redis (SimRedis), clocks, uuid",
    },
}

CAT_POOL = ["a", "b", "c", 7, 2.5, None, True]
NAMES = ["p", "q", "r", "s", "t"]
FAULT_KINDS = ("fail", "prune", "interrupt", "uncaught", "kill")


class _InjectedFailure(Exception):
    pass


class _InjectedUncaught(Exception):
    pass


class _Abort(BaseException):
    """The oracle has reached a verdict inside the objective: leave optimize at once."""


def deployments() -> list[tuple[str, float]]:
    import os

    only = os.environ.get("VERIF_DEPLOYMENTS")
    return [(k, w) for k, w in DEPLOYMENTS if not only or k in only.split(",")]


# ---------------------------------------------------------------------- domains
def domain(spec: dict) -> list:
    """The finite list of external values of a parameter spec (the oracle's own enumeration)."""
    t = spec["t"]
    if t == "cat":
        return list(spec["choices"])
    if t == "int":
        return list(range(spec["low"], spec["high"] + 1, spec.get("step", 1)))
    if t == "float":
        low = decimal.Decimal(str(spec["low"]))
        high = decimal.Decimal(str(spec["high"]))
        step = decimal.Decimal(str(spec["step"]))
        n = int((high - low) // step) + 1
        return [float(low + i * step) for i in range(n)]
    raise ValueError(t)


def canon(v: Any) -> Any:
    if isinstance(v, bool) or v is None or isinstance(v, (str, int)):
        return v
    if isinstance(v, float):
        return round(v, 9) + 0.0
    try:  # numpy scalars
        return canon(v.item())
    except AttributeError:
        return repr(v)


def key_of(params: dict) -> str:
    return json.dumps(sorted((k, canon(v)) for k, v in params.items()))


def index_in(dom: list, v: Any) -> int | None:
    cv = canon(v)
    for i, d in enumerate(dom):
        cd = canon(d)
        if type(cd) is type(cv) and cd == cv:
            return i
        if isinstance(cd, float) and isinstance(cv, (int, float)) and not isinstance(cv, bool) and abs(cd - cv) < 1e-9:
            return i
    return None


def suggest(trial: Any, name: str, spec: dict) -> Any:
    t = spec["t"]
    if t == "cat":
        return trial.suggest_categorical(name, spec["choices"])
    if t == "int":
        return trial.suggest_int(name, spec["low"], spec["high"], step=spec.get("step", 1), log=bool(spec.get("log")))
    return trial.suggest_float(name, spec["low"], spec["high"], step=spec.get("step"))


# ---------------------------------------------------------------------- programs
def node_spec(prog: dict, node: dict) -> dict:
    """The distribution suggested at this node: the parameter's usual one, or a range of its
    own (`b = trial.suggest_int("b", a, 3)` of the sampler's docstring: same name, same kind,
    another range in another branch)."""
    return node.get("spec") or prog["params"][node["p"]]


def tree_leaves(prog: dict) -> list[str]:
    params = prog["params"]
    out: list[str] = []

    def rec(node: Any, combo: dict) -> None:
        if node is None or node.get("p") not in params or node["p"] in combo:
            out.append(key_of(combo))
            return
        dom = domain(node_spec(prog, node))
        ch = node.get("ch") or []
        for i, v in enumerate(dom):
            c = dict(combo)
            c[node["p"]] = v
            rec(ch[i] if i < len(ch) else None, c)

    rec(prog.get("tree"), {})
    return out


def grid_names(prog: dict) -> list[str]:
    """Names of a grid program that are still complete (plans stay valid under deletion)."""
    return [n for n in prog["order"] if prog["grid"].get(n) and n in prog["params"]]


def grid_leaves(prog: dict) -> list[str]:
    names = grid_names(prog)
    out = []
    for combo in itertools.product(*[prog["grid"][n] for n in names]):
        out.append(key_of(dict(zip(names, combo))))
    return out


class _EarlyCut(BaseException):
    """The process is to die after `cut` suggest calls of this trial."""

    def __init__(self, combo: dict) -> None:
        self.combo = combo


def walk_tree(trial: Any, prog: dict, cut: int | None = None) -> tuple[str | None, str]:
    """Run the define-by-run program on `trial`.  Returns (leaf key, '') or (None, why)."""
    params = prog["params"]
    node = prog.get("tree")
    combo: dict = {}
    while node is not None and node.get("p") in params and node["p"] not in combo:
        if cut is not None and len(combo) >= cut:
            raise _EarlyCut(combo)
        name = node["p"]
        spec = node_spec(prog, node)
        v = suggest(trial, name, spec)
        dom = domain(spec)
        i = index_in(dom, v)
        if i is None:
            return None, "%s=%r not in %r" % (name, v, dom)
        combo[name] = dom[i]
        ch = node.get("ch") or []
        node = ch[i] if i < len(ch) else None
    return key_of(combo), ""


def walk_grid(trial: Any, prog: dict, cut: int | None = None) -> tuple[str | None, str]:
    combo: dict = {}
    for name in grid_names(prog):
        if cut is not None and len(combo) >= cut:
            raise _EarlyCut(combo)
        v = suggest(trial, name, prog["params"][name])
        i = index_in(prog["grid"][name], v)
        if i is None:
            return None, "%s=%r not in grid %r" % (name, v, prog["grid"][name])
        combo[name] = prog["grid"][name][i]
    return key_of(combo), ""


# ---------------------------------------------------------------------- generation
def _gen_spec(rng: random.Random, max_vals: int = 3) -> dict:
    n = common.weighted(rng, [(1, 1.0), (2, 3.0), (3, 3.0)][:max_vals])
    t = common.weighted(rng, [("cat", 3.0), ("int", 3.0), ("float", 3.0)])
    if t == "cat":
        return {"t": "cat", "choices": rng.sample(CAT_POOL, n)}
    if t == "int":
        if rng.random() < 0.15:
            low = rng.randint(1, 3)
            return {"t": "int", "low": low, "high": low + n - 1, "step": 1, "log": True}
        step = rng.choice([1, 1, 2, 3])
        low = rng.randint(-3, 3)
        slack = rng.randint(0, step - 1) if step > 1 else 0  # high not on the step lattice
        return {"t": "int", "low": low, "high": low + step * (n - 1) + slack, "step": step}
    step = rng.choice([0.5, 0.25, 0.1, 0.3, 1.0])
    low = rng.choice([0.0, -0.5, 0.1, 1.0, -1.2])
    d = decimal.Decimal(str(low)) + decimal.Decimal(str(step)) * (n - 1)
    if rng.random() < 0.3:
        d += decimal.Decimal(str(step)) * decimal.Decimal(rng.choice(["0.5", "0.9", "0.01"]))  # high off the lattice
    return {"t": "float", "low": low, "high": float(d), "step": step}


def _gen_tree(rng: random.Random, depth: int, used: tuple, params: dict, p_stop: float) -> Any:
    free = [n for n in NAMES if n not in used]
    if depth == 0 or not free or rng.random() < p_stop:
        return None
    name = rng.choice(free)
    own = None
    if name not in params:
        params[name] = _gen_spec(rng)
    elif params[name]["t"] != "cat" and rng.random() < 0.5:
        # the name was used in another branch: here it gets a range of its own
        for _ in range(20):
            cand = _gen_spec(rng)
            if cand["t"] == params[name]["t"] and bool(cand.get("log")) == bool(params[name].get("log")):
                own = cand
                break
    n = len(domain(own or params[name]))
    shared = None
    if rng.random() < 0.35:
        shared = _gen_tree(rng, depth - 1, used + (name,), params, p_stop)
    ch = []
    for _ in range(n):
        if shared is not None and rng.random() < 0.7:
            ch.append(json.loads(json.dumps(shared)))
        else:
            ch.append(_gen_tree(rng, depth - 1, used + (name,), params, p_stop + 0.15))
    node = {"p": name, "ch": ch}
    if own is not None:
        node["spec"] = own
    return node


def _prune_params(prog: dict) -> None:
    usedn: set = set()

    def rec(node: Any) -> None:
        if node is None:
            return
        usedn.add(node["p"])
        for c in node["ch"]:
            rec(c)

    rec(prog["tree"])
    prog["params"] = {k: v for k, v in prog["params"].items() if k in usedn}


def gen_program(rng: random.Random, max_leaves: int = MAX_LEAVES) -> dict:
    for _ in range(200):
        params: dict = {}
        tree = _gen_tree(rng, 3, (), params, rng.choice([0.02, 0.1, 0.25]))
        prog = {"kind": "tree", "params": params, "tree": tree}
        n = len(tree_leaves(prog))
        if n <= max_leaves and (n >= 2 or rng.random() < 0.05):
            _prune_params(prog)
            return prog
    return {"kind": "tree", "params": {"p": {"t": "int", "low": 0, "high": 2, "step": 1}}, "tree": {"p": "p", "ch": [None, None, None]}}


def gen_grid(rng: random.Random, max_leaves: int = MAX_LEAVES) -> dict:
    k = common.weighted(rng, [(1, 1.0), (2, 3.0), (3, 2.0 if max_leaves > 12 else 0.0)])
    names = rng.sample(NAMES, k)
    params: dict = {}
    grid: dict = {}
    for n in names:
        r = rng.random()
        if r < 0.25:
            # continuous float, arbitrary grid values inside the range
            m = rng.randint(1, 3)
            vals = rng.sample([-1.5, -0.25, 0.0, 0.3, 1.0, 2.75, 4.0], m)
            params[n] = {"t": "float", "low": -2.0, "high": 4.0, "step": None}
            grid[n] = vals
        else:
            spec = _gen_spec(rng)
            dom = domain(spec)
            if len(dom) == 1 or rng.random() < 0.6:
                vals = list(dom)
            else:
                vals = rng.sample(dom, rng.randint(1, len(dom)))  # a sub-grid of the domain
            rng.shuffle(vals)
            params[n] = spec
            grid[n] = vals
    order = list(names)
    rng.shuffle(order)
    return {"kind": "grid", "params": params, "grid": grid, "order": order}


def gen_plan(seed: int, run: int, tier: str) -> dict:
    rng = common.rng_for(seed, run, "work")
    kind = common.weighted(rng, deployments())
    max_leaves = MAX_LEAVES if kind != "rdb" else 9  # a trial on SQLite costs ~100 ms
    if rng.random() < 0.3:
        prog = gen_grid(rng, max_leaves)
        leaves = grid_leaves(prog)
        sampler = {"kind": "grid", "seed": rng.choice([None, 0, 1, 7, 12345])}
    else:
        prog = gen_program(rng, max_leaves)
        leaves = tree_leaves(prog)
        sampler = {"kind": "brute", "seed": rng.randint(0, 99), "avoid_premature_stop": rng.random() < 0.5}
    nl = len(leaves)
    import os

    kills_ok = kind in DURABLE and os.environ.get("VERIF_C14_NO_KILLS") != "1"
    p_fault = rng.choice([0.0, 0.1, 0.25, 0.5])
    kinds = [("fail", 3.0), ("prune", 3.0), ("interrupt", 2.0), ("uncaught", 1.0)]
    if kills_ok:
        kinds.append(("kill", 2.5))
    style = rng.choice(["one", "few", "few", "many"])
    nchunks = {"one": 0, "few": rng.randint(1, 3), "many": rng.randint(3, 6)}[style]
    chunks = []
    for _ in range(nchunks):
        r = rng.random()
        if r < 0.25:
            n_trials = None
        elif r < 0.45:
            n_trials = 1
        else:
            n_trials = rng.randint(1, max(1, nl))
        stop_after = rng.randint(1, max(1, nl // 2)) if rng.random() < 0.2 else None
        horizon = min(nl, n_trials if n_trials is not None else nl)
        faults = [{"at": i, "kind": common.weighted(rng, kinds)} for i in range(horizon) if rng.random() < p_fault]
        for f in faults:
            if f["kind"] == "kill" and rng.random() < 0.5:
                f["after"] = rng.choice([0, 0, 1, 2])  # the process dies after that many suggest calls
            elif f["kind"] == "kill" and rng.random() < 0.4:
                f["in_ask"] = rng.choice([0, 1, 2, 2, 3])  # ... before that storage write inside ask()
        # "copy": the study is copied (copy_study) and the search goes on in the copy
        resume = common.weighted(rng, [("same", 3.0), ("reload", 2.0), ("restart", 3.0), ("copy", 1.5)])
        ch: dict = {"n_trials": n_trials, "stop_after": stop_after, "faults": faults, "resume": resume}
        if sampler["kind"] == "brute" and rng.random() < 0.5:
            ch["seed"] = rng.randint(0, 99)
        chunks.append(ch)
    if kills_ok and rng.random() < 0.5:
        # make sure the kill/restart path is exercised often: one kill early in some chunk
        if not chunks:
            chunks.append({"n_trials": None, "stop_after": None, "faults": [], "resume": "restart"})
        c0 = rng.choice(chunks)
        at = rng.randrange(max(1, min(nl - 1, c0["n_trials"] if c0["n_trials"] is not None else nl)))
        kf: dict = {"at": at, "kind": "kill"}
        if rng.random() < 0.5:
            kf["after"] = rng.choice([0, 0, 1, 2])
        elif rng.random() < 0.4:
            kf["in_ask"] = rng.choice([0, 1, 2, 2, 3])
        c0["faults"] = [f for f in c0["faults"] if f["at"] != at] + [kf]
        c0["faults"].sort(key=lambda f: f["at"])
    # the implicit last chunk (n_trials=None) may carry faults too
    tail_faults = [{"at": i, "kind": common.weighted(rng, [k for k in kinds if k[0] in ("fail", "prune")])} for i in range(nl) if rng.random() < p_fault]
    cfg = {"deployment": kind, "p_seam": 0.0, "p_line": 0.0, "snapshot_interval": rng.choice([2, 5, 100]), "read_block": rng.choice([64, 8192])}
    hrng = common.rng_for(seed, run, "hb")  # own stream: the other draws stay as they were
    if kind == "rdb" and kills_ok and sampler["kind"] == "brute" and nl >= 3 and hrng.random() < 0.7:
        # heartbeat mode (DESIGN.md C14, "heartbeat recovery"): RDBStorage with heartbeats and
        # RetryFailedTrialCallback; the objective takes virtual time; a killed worker is restarted
        # at once (sooner than the grace period) and the resumed run must recover the dead trial
        sampler["avoid_premature_stop"] = False
        hbint = hrng.choice([1, 2])
        cfg["hb"] = {"interval": hbint, "grace": hrng.choice([2 * hbint, 3 * hbint, 5]), "dur": hrng.choice([1.0, 2.5, 4.0, 6.0])}
        for c in chunks:
            for f in c["faults"]:
                f.pop("after", None)
                f.pop("in_ask", None)
        if not any(f["kind"] == "kill" for c in chunks for f in c["faults"]):
            if not chunks:
                chunks.append({"n_trials": None, "stop_after": None, "faults": [], "resume": "restart"})
            at = hrng.randrange(min(2, nl - 1) + 1)
            c0 = chunks[0]
            c0["faults"] = sorted([f for f in c0["faults"] if f["at"] != at] + [{"at": at, "kind": "kill"}], key=lambda f: f["at"])
            if c0["n_trials"] is not None and c0["n_trials"] <= at:
                c0["n_trials"] = at + 1
            if c0["stop_after"] is not None and c0["stop_after"] <= at:
                c0["stop_after"] = None
        if hrng.random() < 0.8:
            # one long resumed call: no chunk boundary (each optimize call sweeps at its start anyway)
            first = next(i for i, c in enumerate(chunks) if any(f["kind"] == "kill" for f in c["faults"]))
            del chunks[first + 1 :]
    return {"check": ID, "seed": seed, "run": run, "cfg": cfg, "sampler": sampler, "program": prog, "chunks": chunks, "tail_faults": tail_faults, "sched": {"seed": rng.getrandbits(48)}}


# ---------------------------------------------------------------------- runner glue
def shrink_paths(plan: dict) -> list[tuple]:
    # fault lists first: deleting faults never moves chunk indices
    paths: list[tuple] = [("chunks", i, "faults") for i, c in enumerate(plan.get("chunks", [])) if c.get("faults")]
    if plan.get("tail_faults"):
        paths.append(("tail_faults",))
    paths.append(("chunks",))
    # smaller programs: a deleted parameter turns its nodes into leaves / drops it from the grid
    prog = plan.get("program", {})
    if prog.get("kind") == "grid":
        paths.extend(("program", "grid", n) for n in sorted(prog.get("grid", {})) if len(prog["grid"][n]) > 1)
    if len(prog.get("params", {})) > 1:
        paths.append(("program", "params"))
    return paths


def signature_class(sig: str) -> str:
    return "|".join(sig.split("|")[:4])


def _prog_str(prog: dict) -> str:
    if prog.get("kind") == "grid":
        return "grid %s order=%s dists=%s" % (json.dumps(prog["grid"]), prog["order"], json.dumps(prog["params"]))

    def rec(node: Any) -> Any:
        if node is None:
            return "."
        return {node["p"] + ("@" + json.dumps(node["spec"], sort_keys=True) if node.get("spec") else ""): [rec(c) for c in node.get("ch") or []]}

    return "tree %s dists=%s" % (json.dumps(rec(prog.get("tree"))), json.dumps(prog["params"]))


def _chunk_str(c: dict) -> str:
    f = ",".join("%d:%s" % (x["at"], x["kind"]) for x in c.get("faults", []))
    return "optimize(n_trials=%s%s%s)->%s%s" % (c.get("n_trials"), ", stop_cb@%s" % c["stop_after"] if c.get("stop_after") else "", ", faults[%s]" % f if f else "", c.get("resume", "same"), "(seed=%s)" % c["seed"] if "seed" in c else "")


def sample_view(plan: dict, res: dict) -> dict:
    return {"deployment": plan["cfg"]["deployment"], "sampler": plan["sampler"], "program": _prog_str(plan["program"]), "chunks": [_chunk_str(c) for c in plan["chunks"]] + ["optimize(n_trials=None, faults[%s])" % ",".join("%d:%s" % (x["at"], x["kind"]) for x in plan.get("tail_faults", []))], "status": res["status"], "counters": {k: v for k, v in res.get("counters", {}).items() if k.startswith(("evals", "exhaust", "self_stop", "resume", "fault"))}}


def run_plan(plan: dict) -> dict:
    cfg = plan["cfg"]
    kind = cfg["deployment"]
    ch = common.make_chooser(plan)
    sim = sched.Sim(ch, trace_suffixes=(), max_steps=2000000, uuid_salt=str(plan.get("run", 0)))
    dcfg = cfg
    if cfg.get("hb") and kind == "rdb":
        from optuna.storages import RetryFailedTrialCallback

        dcfg = dict(cfg, heartbeat_interval=int(cfg["hb"]["interval"]), grace_period=int(cfg["hb"]["grace"]), failed_trial_callback=RetryFailedTrialCallback())
    dep = deploy.Deployment(sim, kind, dcfg)
    try:
        return _run(plan, sim, ch, dep)
    finally:
        dep.close()


def _make_sampler(plan: dict, seed: Any) -> Any:
    import optuna

    s = plan["sampler"]
    if s["kind"] == "grid":
        prog = plan["program"]
        grid = {n: list(prog["grid"][n]) for n in grid_names(prog)}
        return optuna.samplers.GridSampler(grid, seed=s.get("seed"))
    return optuna.samplers.BruteForceSampler(seed=seed, avoid_premature_stop=bool(s.get("avoid_premature_stop")))


def _wrap_beats(st: Any, beat_ids: set, dep: Any) -> None:
    orig = st.record_heartbeat

    def record_heartbeat(trial_id: int) -> None:
        orig(trial_id)
        beat_ids.add(trial_id)  # a heartbeat row really exists from now on

    st.record_heartbeat = record_heartbeat
    # the RDBStorage objects are pooled across runs: take the wrapper off again
    dep._closers.append(lambda: st.__dict__.pop("record_heartbeat", None))


def _run(plan: dict, sim: sched.Sim, ch: sched.Chooser, dep: deploy.Deployment) -> dict:
    import optuna
    from optuna.trial import TrialState

    cfg = plan["cfg"]
    kind = cfg["deployment"]
    prog = plan["program"]
    skind = plan["sampler"]["kind"]
    is_grid = skind == "grid"
    prefix = "%s|%s|%s|" % (ID, kind, skind)
    durable = kind in DURABLE
    leaves = grid_leaves(prog) if is_grid else tree_leaves(prog)
    leafset = set(leaves)
    if len(leafset) != len(leaves):
        raise RuntimeError("generator produced duplicate leaves: %r" % leaves)
    kills_ok = durable
    # BruteForceSampler(avoid_premature_stop=False) treats a RUNNING trial's unexplored
    # position as taken: what lies below the point where a worker died may stay unvisited
    excusing = not is_grid and not bool(plan["sampler"].get("avoid_premature_stop"))
    walk = walk_grid if is_grid else walk_tree
    chunks = list(plan.get("chunks", []))
    n_planned_cuts = sum(1 for c in chunks for f in c.get("faults", []) if f.get("kind") in ("interrupt", "uncaught", "kill")) + len(chunks)
    bound = len(leaves) + n_planned_cuts + 1

    S: dict[str, Any] = {
        "ci": 0,  # index of the next chunk
        "evals": [],  # (chunk index, leaf key, outcome)
        "visits": {},  # leaf key -> number of finished evaluations
        "kills": 0,
        "ask_kills": 0,  # kills inside ask(): the trial may not exist yet
        "arm": None,
        "name": STUDY_NAME,
        "killed_at": [],  # parameter prefixes (dicts) of the trials whose process was killed
        "paths": [],  # parameter dicts of every other evaluation
        "verdict": None,
        "done": None,
        "calls": 0,
        "faults_fired": 0,
        "next_seed": plan["sampler"].get("seed"),
        "restart": False,
        "log": [],
        "hb_kills": [],  # heartbeat mode: {"i": index in killed_at, "t": kill time, "tid", "num"}
        "unexcused": set(),  # indexes into killed_at: dead trials the resumed run had to recover
        "beat_ids": set(),  # trial ids that have a heartbeat row
    }
    hbc = cfg.get("hb") if kind == "rdb" else None

    def verdict(kind_: str, why: str) -> None:
        if S["verdict"] is None:
            S["verdict"] = (prefix + kind_ + "|" + why[:160], why)

    leaf_items = {k: set(map(tuple, json.loads(k))) for k in leaves}

    def excused() -> set:
        """Leaves the sampler may leave out: below the position p of a killed trial, as long
        as no other trial went below p (then p's node is expanded and the RUNNING mark on it
        is void)."""
        if not excusing or not S["killed_at"]:
            return set()
        out: set = set()
        for i, p in enumerate(S["killed_at"]):
            if i in S["unexcused"]:
                continue  # heartbeat mode: the sweep before a later trial had to fail + retry it
            ps = set((k, canon(v)) for k, v in p.items())
            others = [set((k, canon(v)) for k, v in q.items()) for q in S["paths"]] + [set((k, canon(v)) for k, v in q.items()) for j, q in enumerate(S["killed_at"]) if j != i]
            if any(ps < q for q in others):
                continue
            out.update(k for k, items in leaf_items.items() if ps <= items)
        return out

    def exhausted() -> bool:
        if len(S["visits"]) == len(leaves):
            return True
        if not excusing:
            return False
        ex = excused()
        return all(k in S["visits"] or k in ex for k in leaves)

    def run_chunk(study: Any, proc: Any, ci: int, chunk: dict) -> None:
        faults: dict[int, str] = {}
        fafter: dict[int, int] = {}
        fask: dict[int, int] = {}
        for f in chunk.get("faults", []):
            k = f.get("kind")
            if k in FAULT_KINDS and (k != "kill" or kills_ok):
                if int(f.get("at", 0)) not in faults and f.get("after") is not None:
                    fafter[int(f.get("at", 0))] = int(f["after"])
                if int(f.get("at", 0)) not in faults and k == "kill" and f.get("in_ask") is not None:
                    fask[int(f.get("at", 0))] = int(f["in_ask"])
                faults.setdefault(int(f.get("at", 0)), k)
        n_trials = chunk.get("n_trials")
        stop_after = chunk.get("stop_after")
        c = {"started": 0, "cb": 0, "cb_stop": False, "cut": None}

        def objective(trial: Any) -> float:
            i = c["started"]
            c["started"] += 1
            if hbc:
                # optimize() sweeps stale trials right before every ask: a trial that starts later
                # than grace (+ one beat + clock granularity) after a worker died with a recorded
                # heartbeat proves that the dead trial had to be failed and its retry enqueued
                for hk in S["hb_kills"]:
                    if hk["tid"] in S["beat_ids"] and sim.now > hk["t"] + hbc["grace"] + hbc["interval"] + 2.0 and hk["i"] not in S["unexcused"]:
                        S["unexcused"].add(hk["i"])
                        sim.count("hb_trial_started_after_dead_trial_went_stale")
                if trial.system_attrs.get("failed_trial") is not None:
                    sim.count("hb_retry_of_dead_trial_evaluated")
            if exhausted():
                verdict("no-stop", "every leaf had been evaluated, yet optimize call #%d started another trial (number %d)" % (ci, trial.number))
                raise _Abort()
            if len(S["evals"]) >= bound:
                verdict("runaway", "more than %d trials for %d leaves" % (bound, len(leaves)))
                raise _Abort()
            fk = faults.get(i)
            if fk == "kill" and i in fask:
                fk = None  # that kill was aimed at ask(); the trial got through (fewer writes)
            cut = fafter.get(i) if fk == "kill" else None
            try:
                key, why = walk(trial, prog, cut)
            except _EarlyCut as ec:
                S["killed_at"].append(dict(ec.combo))
                S["evals"].append((ci, key_of(ec.combo), "kill"))
                sim.note("eval", ci, key_of(ec.combo), "kill-early")
                S["kills"] += 1
                S["faults_fired"] += 1
                sim.count("fault:kill")
                sim.count("fault:kill_before_last_suggest")
                c["cut"] = "kill"
                sim.crash(proc)
                raise sched.SimKilled()
            if key is None:
                verdict("off-domain", "sampler returned a value outside the parameter's domain: " + why)
                raise _Abort()
            if key not in leafset:
                verdict("off-space", "evaluated combination %s is not a leaf of the program" % key)
                raise _Abort()
            if hbc:
                sim.sleep(float(hbc["dur"]) if fk != "kill" else 0.3)  # the evaluation takes (virtual) time
            if fk == "kill":
                if hbc:
                    S["hb_kills"].append({"i": len(S["killed_at"]), "t": sim.now, "tid": trial._trial_id, "num": trial.number})
                    sim.count("fault:kill_with_heartbeat" if trial._trial_id in S["beat_ids"] else "fault:kill_before_first_heartbeat")
                S["killed_at"].append(dict(json.loads(key)))
                S["evals"].append((ci, key, "kill"))
                sim.note("eval", ci, key, "kill")
                S["kills"] += 1
                S["faults_fired"] += 1
                sim.count("fault:kill")
                c["cut"] = "kill"
                sim.crash(proc)
                raise sched.SimKilled()
            outcome = fk or "complete"
            S["paths"].append(dict(json.loads(key)))
            S["evals"].append((ci, key, outcome))
            sim.note("eval", ci, key, outcome)
            if key in S["visits"]:
                S["visits"][key] += 1
                verdict("duplicate", "combination %s evaluated twice while %d of %d leaves were still unvisited" % (key, len(leaves) - len(S["visits"]), len(leaves)))
                raise _Abort()
            S["visits"][key] = 1
            if fk is not None:
                S["faults_fired"] += 1
                sim.count("fault:" + fk)
            if fk == "fail":
                raise _InjectedFailure("injected")
            if fk == "prune":
                raise optuna.TrialPruned()
            if fk == "interrupt":
                c["cut"] = "interrupt"
                raise KeyboardInterrupt()
            if fk == "uncaught":
                c["cut"] = "uncaught"
                raise _InjectedUncaught("injected")
            return float(len(S["visits"]))

        orig_ask = study.ask

        def ask(*a: Any, **k: Any) -> Any:
            n = fask.get(c["started"])
            if n is not None and faults.get(c["started"]) == "kill":
                S["arm"] = {"n": n, "seen": 0, "ci": ci, "proc": proc, "c": c}
            try:
                return orig_ask(*a, **k)
            finally:
                S["arm"] = None

        study.ask = ask  # type: ignore[method-assign]

        def cb(study_: Any, ft: Any) -> None:
            c["cb"] += 1
            if stop_after is not None and c["cb"] == stop_after:
                c["cb_stop"] = True
                study_.stop()

        S["calls"] += 1
        outcome = "returned"
        try:
            study.optimize(objective, n_trials=n_trials, catch=(_InjectedFailure,), callbacks=[cb])
        except _Abort:
            S["log"].append("#%d %s: aborted by the oracle" % (ci, _chunk_str(chunk)))
            return
        except KeyboardInterrupt:
            outcome = "interrupt"
            if c["cut"] != "interrupt":
                verdict("unexpected-exception", "KeyboardInterrupt out of optimize call #%d without an injected interrupt" % ci)
        except _InjectedUncaught:
            outcome = "uncaught"
        except (sched.HarnessError, sched.SimDeadlock):
            raise  # a kernel problem is never a verdict
        except Exception as e:
            import traceback

            tb = traceback.extract_tb(e.__traceback__)
            where = "%s:%s" % (tb[-1].filename.split("/optuna/")[-1], tb[-1].name) if tb else "?"
            verdict("unexpected-exception", "%s in optimize call #%d at %s: %s" % (type(e).__name__, ci, where, str(e)[:300]))
            outcome = "raised"
        ran = c["started"]
        sim.note("chunk", ci, outcome, ran, c["cb_stop"])
        S["log"].append("#%d %s: %s after %d trials%s; %d/%d leaves visited" % (ci, _chunk_str(chunk), outcome, ran, " (callback stop)" if c["cb_stop"] else "", len(S["visits"]), len(leaves)))
        if S["verdict"] is not None:
            return
        if outcome == "returned" and (n_trials is None or ran < n_trials) and not c["cb_stop"]:
            if exhausted():
                S["done"] = "self-stop"
                sim.count("self_stop_observed")
            else:
                missing = sorted(leafset - set(S["visits"]))
                verdict("premature-stop", "optimize call #%d (n_trials=%s) returned by itself after %d trials with %d of %d leaves unvisited, e.g. %s" % (ci, n_trials, ran, len(missing), len(leaves), missing[0]))
        elif exhausted():
            S["done"] = "boundary"
            why = "interrupt" if outcome in ("interrupt", "uncaught") else ("callback" if c["cb_stop"] else "n_trials")
            sim.count("exhausted_at_boundary:" + why)

    def fault_hook(task: Any, skind: str, detail: str) -> None:
        arm = S["arm"]
        if arm is None or skind not in WRITE_SEAMS or task.proc is not arm["proc"]:
            return
        arm["seen"] += 1
        if arm["seen"] - 1 != arm["n"]:
            return
        # the worker dies inside ask(), right before this write reaches the storage
        S["arm"] = None
        S["killed_at"].append({})
        S["evals"].append((arm["ci"], key_of({}), "kill"))
        sim.note("eval", arm["ci"], "ask", "kill-in-ask", arm["n"])
        S["kills"] += 1
        S["ask_kills"] += 1
        S["faults_fired"] += 1
        sim.count("fault:kill")
        sim.count("fault:kill_inside_ask")
        arm["c"]["cut"] = "kill"
        sim.crash(task.proc)

    sim.fault_hook = fault_hook

    def next_chunk() -> dict:
        ci = S["ci"]
        S["ci"] += 1
        if ci < len(chunks):
            return chunks[ci]
        if ci > len(chunks) + 2:
            raise RuntimeError("implicit final chunk did not terminate the run")
        return {"n_trials": None, "stop_after": None, "faults": [f for f in plan.get("tail_faults", []) if f.get("kind") in ("fail", "prune")] if ci == len(chunks) else [], "resume": "same"}

    def make_body(life: int, proc: Any, st: Any) -> Any:
        def body() -> None:
            sampler = _make_sampler(plan, S["next_seed"])
            if life == 0:
                study = optuna.create_study(storage=st, sampler=sampler, study_name=S["name"])
            else:
                study = optuna.load_study(study_name=S["name"], storage=st, sampler=sampler)
            while True:
                ci = S["ci"]
                chunk = next_chunk()
                run_chunk(study, proc, ci, chunk)
                if S["verdict"] is not None or S["done"] is not None:
                    return
                if "seed" in chunk and not is_grid:
                    S["next_seed"] = chunk["seed"]
                r = chunk.get("resume", "same")
                if r == "restart" and durable:
                    S["restart"] = True
                    sim.count("resume:restart")
                    return
                if r == "copy":
                    new_name = "%s-copy%d" % (STUDY_NAME, ci)
                    optuna.copy_study(from_study_name=S["name"], from_storage=st, to_storage=st, to_study_name=new_name)
                    S["name"] = new_name
                    sim.count("resume:copy_study")
                    for hk in S["hb_kills"]:
                        # the copy of a dead worker's trial is RUNNING without a heartbeat row: no sweep ever
                        # finds it, its leaf stays excused (false alarm of the first draft, replay C14-0-5180)
                        if hk["i"] not in S["unexcused"]:
                            hk["tid"] = None
                    sampler = _make_sampler(plan, S["next_seed"])
                    study = optuna.load_study(study_name=S["name"], storage=st, sampler=sampler)
                elif r in ("reload", "restart"):
                    sim.count("resume:reload")
                    sampler = _make_sampler(plan, S["next_seed"])
                    study = optuna.load_study(study_name=S["name"], storage=st, sampler=sampler)
                else:
                    sim.count("resume:same")

        return body

    life = 0
    while True:
        proc = sim.proc("W%d" % life)
        st = dep.client(proc)
        if hbc:
            _wrap_beats(st, S["beat_ids"], dep)
        S["restart"] = False
        t = sim.spawn(proc, "w%d" % life, make_body(life, proc, st))
        status = sim.run()
        if status != "ok":
            if t.exc is not None and not isinstance(t.exc, sched.SimKilled):
                raise t.exc
            return common.result(sim, ch, "violation" if status == "deadlock" else "inconclusive", prefix + status + "|" + status, status, nontrivial=False)
        if t.killed:
            # the kill fault: the chunk is over, the next one runs in a new process
            ci = S["ci"] - 1
            sim.note("chunk", ci, "killed")
            S["log"].append("#%d: process killed inside trial evaluation; %d/%d leaves visited" % (ci, len(S["visits"]), len(leaves)))
            if ci < len(chunks) and "seed" in chunks[ci] and not is_grid:
                S["next_seed"] = chunks[ci]["seed"]
            sim.count("resume:after_kill")
            if excusing and exhausted():
                # nothing is left but what the dead trial still holds: the sampler would stop
                # after one more (arbitrary) trial; a finished search is not resumed
                S["done"] = "boundary"
                sim.count("exhausted_at_boundary:kill")
                break
        elif t.exc is not None:
            raise t.exc
        elif S["verdict"] is not None or S["done"] is not None:
            break
        elif not S["restart"]:
            raise RuntimeError("task ended without verdict, completion or restart")
        life += 1
        if life > len(chunks) + 3:
            raise RuntimeError("too many process lives")

    nl = len(leaves)
    detail_tail = "\n  program: %s\n  sampler: %s\n  calls:\n    %s\n  evaluations: %s" % (_prog_str(prog), json.dumps(plan["sampler"]), "\n    ".join(S["log"]), " ".join("%d:%s:%s" % e for e in S["evals"])[:1500])
    nontrivial = nl >= 3 and (S["faults_fired"] > 0 or S["calls"] >= 2)
    if S["verdict"] is not None:
        return common.result(sim, ch, "violation", S["verdict"][0], S["verdict"][1] + detail_tail, nontrivial=nontrivial)

    # ---- final cross-check against what the storage holds (fresh observer on durable media)
    seams.set_sim(sim, dep.fs)
    obs = dep.observer()
    sid = obs.get_study_id_from_name(S["name"])
    trials = obs.get_all_trials(sid, deepcopy=False)
    fin: dict[str, int] = {}
    nrunning = 0
    reaped = 0
    dead_nums = {hk["num"] for hk in S["hb_kills"]}
    for tr in trials:
        if tr.number in dead_nums and tr.state == TrialState.FAIL:
            reaped += 1  # failed by the stale-trial sweep; its retry is the evaluation
        elif tr.state.is_finished():
            k = key_of(tr.params)
            fin[k] = fin.get(k, 0) + 1
        elif tr.state == TrialState.RUNNING:
            nrunning += 1
    sim.note("final", sorted(fin.items()), nrunning)
    ex_final = excused()
    if ex_final:
        sim.count("leaves_left_to_dead_trials", len([k for k in leaves if k not in S["visits"]]))
    if sorted(fin.items()) != sorted((k, 1) for k in leaves if k in fin or k not in ex_final):
        extra = sorted(k for k, n in fin.items() if n > 1 or k not in leafset)
        missing = sorted(leafset - set(fin) - ex_final)
        v = prefix + "storage-mismatch|finished trials in storage are not the leaves exactly once"
        return common.result(sim, ch, "violation", v, "finished trials read back: duplicated/foreign %s missing %s" % (extra[:3], missing[:3]) + detail_tail, nontrivial=nontrivial)
    ak = S["ask_kills"]
    if reaped:
        sim.count("hb_dead_trials_failed_by_sweep", reaped)
    if not (S["kills"] - ak <= nrunning + reaped <= S["kills"]) or not (len(S["evals"]) - ak <= len(trials) <= len(S["evals"])):
        v = prefix + "storage-mismatch|trial count or RUNNING count differs from the evaluations made"
        return common.result(sim, ch, "violation", v, "%d trials (%d RUNNING) in storage, %d evaluations (%d killed)" % (len(trials), nrunning, len(S["evals"]), S["kills"]) + detail_tail, nontrivial=nontrivial)
    extra = {"evals": len(S["evals"]), "leaves": nl, "optimize_calls": S["calls"], "sampler:" + skind: 1, "lives": life + 1}
    if nl == 1:
        extra["single_leaf_programs"] = 1
    return common.result(sim, ch, "ok", nontrivial=nontrivial, extra_counters=extra)
