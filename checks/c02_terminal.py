"""C02 - every trial run by optimize/ask/tell ends well-formed.

Two workloads, drawn per run:

``optimize``  one simulated task calls ``study.optimize(stub, n_trials, n_jobs, catch, callbacks)``
    on a study with a generated sampler / pruner / number of objectives / pre-existing trials.
    The stub objective executes the *objective program* of its trial (a JSON script of
    ``suggest`` / ``report`` / ``prune?`` / ``attr`` actions ended by ``ret <value spec>`` or
    ``raise <exception name>`` at any position).  Value specs cover "any Python value"
    (see VALUE_KINDS); exceptions cover Exception subclasses, TrialPruned (and a subclass),
    KeyboardInterrupt (and a subclass) raised *by the objective*.  Further faults: exceptions
    raised by ``sampler.after_trial`` (a wrapper around the real sampler, before or after the
    real hook), a callback calling ``study.stop()``, a callback raising.  ``n_jobs`` in {1,2,3};
    for ``n_jobs > 1`` the thread pool is the simulated one and every line of the study and
    storage modules is a pre-emption point.

``asktell``   one or two tasks (threads sharing one Study, or processes with their own Study
    object) drive ``ask()`` / ``Trial.report`` / ``tell(trial|number, values, state,
    skip_if_finished)`` directly over all argument combinations, including telling finished
    trials and telling one trial from two tasks at once (line pre-emption).

Oracle (DESIGN.md C02): (a) no trial started by the call is left RUNNING; (b) the outcome of a
returned value is given by an independent 6-line spec (`spec_outcome`); stored values are
exactly those floats; (c) FAIL trials have no values; (d) an objective exception not in
``catch`` propagates (n_jobs>1: one of the raised ones), nothing else comes out of optimize;
(e) tell on a finished trial raises / returns with skip_if_finished and never changes it;
(f) the recording callback ran exactly once per trial whose exception did not propagate, with
the trial already finished in the storage; (g) exactly n_trials trials ran when nothing
stopped the loop (never more; with n_jobs=1 none after a stop or a propagating exception).
"""
from __future__ import annotations

import collections
import collections.abc
import json
import math
import os
import random
import warnings
from typing import Any

from checks import common
from simkit import deploy, sched, seams

ID = "C02"
LEVEL = "exploration"
BUDGET = {"quick": 45, "thorough": 900}

DEPLOYMENTS = [("mem", 6.0), ("jf-sym", 2.5), ("grpc(mem)", 1.5), ("cached", 0.35)]
STUDY = "c02"

EVIDENCE = {
    "rule": "one case = one simulated execution of a generated plan: deployment, 1-3 objectives, sampler (Random/TPE/NSGA-II/QMC/Grid/BruteForce, seeded) and pruner (Nop/Median/SuccessiveHalving/Hyperband), pre-existing finished and enqueued trials, and either (optimize) n_trials<=6, n_jobs in {1,2,3}, catch, one objective program per trial (suggest/report/should_prune/set_user_attr then `return <any Python value>` or `raise <exception>`), after_trial faults, stop/raising callbacks, or (asktell) 1-2 task scripts of ask / report / tell(trial|number, values, state, skip_if_finished). Non-trivial = at least one trial ended other than by returning plain floats (odd return value, exception, prune, sampler/callback fault, stop, tell on a finished or concurrently told trial) and at least two trials ran; distinct = distinct digests over every objective outcome, tell result, callback, final (state, values) and scheduling decision.",
    "assumptions": [
        "exceptions raised inside ask() by a sampler (before_trial / relative sampling) are not injected: no mechanism claims to cover that window (DESIGN.md C02); a run in which the real sampler raises there is counted inconclusive",
        "KeyboardInterrupt is raised by the objective itself (as the property says), never delivered asynchronously",
        "str / bytes / bytearray / memoryview return values are Sequences and iterated element-wise by tell: for them either the spec's outcome or FAIL is accepted (clause (a) still applies)",
        "a PRUNED trial may carry no value or exactly the last reported intermediate value (tell's documented behaviour); nothing else",
        "callback exceptions are injected only in runs that do not evaluate the callbacks-exactly-once clause; for a trial whose exception propagates 0 or 1 callback invocations are accepted",
        "sampler.reseed_rng() (called by optimize for n_jobs>1) is replaced by a no-op in the sampler wrapper: the real one reseeds from OS entropy",
        "a study.stop() issued by GridSampler/BruteForceSampler on exhaustion counts as 'something stopped the loop' for clause (g)",
        "in two-task asktell runs the oracle uses the results returned by tell and the final state read by a fresh observer (no mid-run reads); in one-task runs the trial is also read back after every tell",
        "line pre-emption covers optuna/study/*.py, optuna/trial/_trial.py and the storage layer; samplers and pruners are pre-empted only at the storage seams they reach",
    ],
    "components": {
        "real": "optuna Study.optimize/_run_trial/ask/tell, Trial, samplers (Random, TPE, NSGA-II, QMC, Grid, BruteForce), pruners (Nop, Median, SuccessiveHalving, Hyperband), InMemoryStorage, JournalStorage+JournalFileBackend, _CachedStorage+RDBStorage on sqlite3, GrpcStorageProxy+servicer, numpy/scipy",
        "stub": "OS scheduler and thread pool (SimExecutor), locks, clocks, uuid, journal file system (SimFS), gRPC transport (SimNet), SQLite busy handler, the objective function (program interpreter), sampler wrapper (fault injection, reseed_rng)",
    },
}

PARAMS: dict[str, dict] = {
    "x": {"t": "float", "low": -1.0, "high": 1.0},
    "l": {"t": "float", "low": 0.001, "high": 1.0, "log": True},
    "s": {"t": "float", "low": 0.0, "high": 1.0, "step": 0.5},
    "n": {"t": "int", "low": 0, "high": 2},
    "c": {"t": "cat", "choices": ["a", "b"]},
}
FINITE = {"s": [0.0, 0.5, 1.0], "n": [0, 1, 2], "c": ["a", "b"]}

EXC_NAMES = ["ValueError", "RuntimeError", "TypeError", "ZeroDivisionError", "AssertionError", "StopIteration", "MemoryError", "NotImplementedError", "OSError", "Custom", "CustomValueError", "TrialPruned", "PrunedSub", "KeyboardInterrupt", "KISub"]
CATCHES = [[], [], ["ValueError"], ["Exception"], ["Exception"], ["Exception"], ["Custom"], ["ValueError", "Custom"], ["RuntimeError", "TypeError"]]
STR_LIKE = (str, bytes, bytearray, memoryview)


def deployments() -> list[tuple[str, float]]:
    only = os.environ.get("VERIF_DEPLOYMENTS")
    return [(k, w) for k, w in DEPLOYMENTS if not only or k in only.split(",")]


# ====================================================================== the independent spec
def spec_outcome(v: Any, n_objectives: int) -> tuple[str, list[float] | None]:
    """What a trial whose objective returned `v` must look like (DESIGN.md C02 (b))."""
    elements = list(v) if isinstance(v, collections.abc.Sequence) else [v]
    try:
        floats = [float(x) for x in elements]
    except Exception:
        return ("FAIL", None)
    if any(f != f for f in floats) or len(floats) != n_objectives:
        return ("FAIL", None)
    return ("COMPLETE", floats)


# ====================================================================== value specs
class _Floatable:
    def __init__(self, v: float) -> None:
        self.v = v

    def __float__(self) -> float:
        return self.v

    def __repr__(self) -> str:
        return "Floatable(%r)" % self.v


class _BadFloat:
    def __float__(self) -> float:
        raise RuntimeError("__float__ failed")

    def __repr__(self) -> str:
        return "BadFloat()"


class _Indexable:
    def __index__(self) -> int:
        return 3

    def __repr__(self) -> str:
        return "Indexable(3)"


class _Plain:
    def __repr__(self) -> str:
        return "Plain()"


class _Seq(collections.abc.Sequence):
    def __init__(self, items: list) -> None:
        self.items = items

    def __getitem__(self, i: Any) -> Any:
        return self.items[i]

    def __len__(self) -> int:
        return len(self.items)

    def __repr__(self) -> str:
        return "Seq(%r)" % (self.items,)


SCALAR_KINDS = ["float", "int", "bool", "nan", "inf", "ninf", "none", "str", "bytes", "bytearray", "memoryview", "decimal", "fraction", "npf32", "npf64", "npi64", "npnan", "npbool", "arr0", "arr0nan", "floatable", "floatable_nan", "badfloat", "object", "indexable", "bigint", "negbigint", "complex", "dict", "set", "gen", "range"]
CONTAINER_KINDS = ["list", "tuple", "arr", "seq", "deque"]
VALUE_KINDS = SCALAR_KINDS + CONTAINER_KINDS


def build_value(spec: Any) -> Any:
    """JSON value spec -> Python object (fresh object on every call)."""
    import decimal
    import fractions

    import numpy as np

    if not isinstance(spec, dict):
        return spec
    k = spec.get("k")
    v = spec.get("v")
    if k == "float":
        return float(v)
    if k == "int":
        return int(v)
    if k == "bool":
        return bool(v)
    if k == "nan":
        return float("nan")
    if k == "inf":
        return float("inf")
    if k == "ninf":
        return float("-inf")
    if k == "none":
        return None
    if k == "str":
        return str(v)
    if k == "bytes":
        return str(v).encode("latin1")
    if k == "bytearray":
        return bytearray(str(v).encode("latin1"))
    if k == "memoryview":
        return memoryview(str(v).encode("latin1"))
    if k == "decimal":
        return decimal.Decimal(str(v))
    if k == "fraction":
        return fractions.Fraction(int(v[0]), int(v[1]))
    if k == "npf32":
        return np.float32(v)
    if k == "npf64":
        return np.float64(v)
    if k == "npi64":
        return np.int64(v)
    if k == "npnan":
        return np.float64("nan")
    if k == "npbool":
        return np.bool_(bool(v))
    if k == "arr0":
        return np.array(float(v))
    if k == "arr0nan":
        return np.array(float("nan"))
    if k == "floatable":
        return _Floatable(float(v))
    if k == "floatable_nan":
        return _Floatable(float("nan"))
    if k == "badfloat":
        return _BadFloat()
    if k == "object":
        return _Plain()
    if k == "indexable":
        return _Indexable()
    if k == "bigint":
        return 10**400
    if k == "negbigint":
        return -(10**400)
    if k == "complex":
        return complex(1, 2)
    if k == "dict":
        return {"a": 1.0}
    if k == "set":
        return {1.0}
    if k == "gen":
        return (x for x in [1.0])
    if k == "range":
        return range(int(v or 0))
    items = [build_value(i) for i in spec.get("items", [])]
    if k == "list":
        return items
    if k == "tuple":
        return tuple(items)
    if k == "seq":
        return _Seq(items)
    if k == "deque":
        return collections.deque(items)
    if k == "arr":
        try:
            return np.array([float(i) for i in items])
        except Exception:
            return np.array(items, dtype=object)
    raise ValueError("unknown value kind %r" % (k,))


def kind_of(spec: Any) -> str:
    if not isinstance(spec, dict):
        return type(spec).__name__
    k = str(spec.get("k"))
    if k == "str":
        s = str(spec.get("v"))
        try:
            float(s)
            return "numeric-str"
        except ValueError:
            return "str"
    if k in CONTAINER_KINDS:
        return "%s[%s]" % (k, ",".join(kind_of(i) for i in spec.get("items", [])))
    return k


def value_str(spec: Any) -> str:
    if not isinstance(spec, dict):
        return repr(spec)
    k = spec.get("k")
    if k in CONTAINER_KINDS:
        return "%s(%s)" % (k, ", ".join(value_str(i) for i in spec.get("items", [])))
    if "v" in spec:
        return "%s:%r" % (k, spec["v"])
    return str(k)


def _exc_classes() -> dict[str, type]:
    import optuna

    global _EXC
    try:
        return _EXC
    except NameError:
        pass

    class Custom(Exception):
        pass

    class CustomValueError(ValueError):
        pass

    class PrunedSub(optuna.TrialPruned):
        pass

    class KISub(KeyboardInterrupt):
        pass

    _EXC = {"ValueError": ValueError, "RuntimeError": RuntimeError, "TypeError": TypeError, "ZeroDivisionError": ZeroDivisionError, "AssertionError": AssertionError, "StopIteration": StopIteration, "MemoryError": MemoryError, "NotImplementedError": NotImplementedError, "OSError": OSError, "Exception": Exception, "Custom": Custom, "CustomValueError": CustomValueError, "TrialPruned": optuna.TrialPruned, "PrunedSub": PrunedSub, "KeyboardInterrupt": KeyboardInterrupt, "KISub": KISub}
    return _EXC


def build_exc(name: Any, msg: str = "injected") -> BaseException:
    cls = _exc_classes().get(str(name), RuntimeError)
    return cls(msg)


# ====================================================================== generation
def _f(rng: random.Random) -> dict:
    return {"k": "float", "v": rng.choice([0.0, 0.5, 1.5, -2.25, 3.0, 1e-3, 12.0])}


def gen_scalar(rng: random.Random) -> dict:
    k = common.weighted(
        rng,
        [("float", 3), ("int", 2), ("bool", 1), ("nan", 3), ("inf", 1.5), ("ninf", 1), ("none", 3), ("str", 4), ("bytes", 1.5), ("bytearray", 0.5), ("memoryview", 0.5), ("decimal", 1), ("fraction", 0.7), ("npf32", 1), ("npf64", 1), ("npi64", 1), ("npnan", 1), ("npbool", 0.5), ("arr0", 1), ("arr0nan", 0.7), ("floatable", 1), ("floatable_nan", 0.7), ("badfloat", 0.4), ("object", 1), ("indexable", 0.5), ("bigint", 0.8), ("negbigint", 0.3), ("complex", 0.5), ("dict", 0.7), ("set", 0.5), ("gen", 0.5), ("range", 0.8)],
    )
    if k == "float":
        return {"k": k, "v": rng.choice([0.0, -0.0, 1.5, -2.25, 1e308, 5e-324, 3.0])}
    if k == "int":
        return {"k": k, "v": rng.choice([0, 3, -7, 2**53 + 1, 10**30])}
    if k in ("bool", "npbool"):
        return {"k": k, "v": rng.random() < 0.5}
    if k == "str":
        return {"k": k, "v": common.weighted(rng, [("5", 2), ("55", 1), ("abc", 3), ("", 1.5), ("nan", 1), ("1e3", 0.7), (" 7 ", 0.5), ("inf", 0.5), ("1.5", 0.5)])}
    if k in ("bytes", "bytearray", "memoryview"):
        return {"k": k, "v": rng.choice(["5", "ab", "", "57"])}
    if k == "decimal":
        return {"k": k, "v": rng.choice(["1.5", "NaN", "-3", "Infinity"])}
    if k == "fraction":
        return {"k": k, "v": rng.choice([[1, 2], [-7, 3]])}
    if k in ("npf32", "npf64", "arr0", "floatable"):
        return {"k": k, "v": rng.choice([1.5, -0.25, 2.0])}
    if k == "npi64":
        return {"k": k, "v": rng.choice([2, -5])}
    if k == "range":
        return {"k": k, "v": rng.choice([0, 1, 2, 3])}
    return {"k": k}


def gen_container(rng: random.Random, n_obj: int) -> dict:
    k = common.weighted(rng, [("list", 5), ("tuple", 3), ("arr", 1.5), ("seq", 1), ("deque", 0.7)])
    n = common.weighted(rng, [(n_obj, 5), (n_obj + 1, 2), (max(0, n_obj - 1), 2), (0, 1), (1, 1)])
    items: list[dict] = [_f(rng) for _ in range(n)]
    if items and rng.random() < 0.55:
        odd = common.weighted(
            rng,
            [({"k": "nan"}, 3), ({"k": "none"}, 2), ({"k": "str", "v": "5"}, 1.2), ({"k": "str", "v": "abc"}, 1.5), ({"k": "bigint"}, 0.6), ({"k": "list", "items": [{"k": "float", "v": 1.0}]}, 1), ({"k": "inf"}, 1), ({"k": "npf32", "v": 1.5}, 1), ({"k": "bool", "v": True}, 0.7), ({"k": "floatable", "v": 2.0}, 0.7), ({"k": "decimal", "v": "1.5"}, 0.5), ({"k": "npnan"}, 0.7), ({"k": "int", "v": 4}, 1), ({"k": "object"}, 0.5), ({"k": "badfloat"}, 0.2)],
        )
        if k != "arr" or odd["k"] in ("nan", "inf", "npf32", "bool", "int", "npnan"):
            items[rng.randrange(len(items))] = odd
    return {"k": k, "items": items}


def gen_good(rng: random.Random, n_obj: int) -> dict:
    if n_obj == 1 and rng.random() < 0.8:
        return _f(rng)
    return {"k": rng.choice(["list", "list", "tuple"]), "items": [_f(rng) for _ in range(n_obj)]}


def gen_value(rng: random.Random, n_obj: int) -> dict:
    r = rng.random()
    if r < 0.5:
        return gen_scalar(rng)
    return gen_container(rng, n_obj)


def gen_report_value(rng: random.Random) -> dict:
    return common.weighted(rng, [(_f(rng), 8), ({"k": "nan"}, 1.5), ({"k": "inf"}, 0.7), ({"k": "npf32", "v": 1.5}, 0.5), ({"k": "str", "v": "abc"}, 0.3), ({"k": "none"}, 0.3), ({"k": "int", "v": 2}, 0.7)])


def gen_program(rng: random.Random, n_obj: int, names: list[str], p_odd: float, p_raise: float, prefix: list[str] | None = None) -> list[dict]:
    """`prefix` (BruteForceSampler runs): every program suggests the same names in the same order
    and raises only after them - the sampler documents that it needs a deterministic program
    (otherwise its after_trial raises 'param_name mismatch', which is handled but ends the run)."""
    acts: list[dict] = []
    if prefix is not None:
        acts = [{"a": "suggest", "p": n} for n in prefix]
    else:
        for _ in range(common.weighted(rng, [(0, 2), (1, 4), (2, 3), (3, 1)])):
            if names:
                acts.append({"a": "suggest", "p": rng.choice(names) if rng.random() < 0.93 else rng.choice(sorted(PARAMS))})
    # Trial.report / should_prune raise NotImplementedError for multi-objective studies
    if rng.random() < (0.45 if n_obj == 1 else 0.06):
        step = 0
        for _ in range(rng.randint(1, 3)):
            acts.append({"a": "report", "v": gen_report_value(rng), "step": step if rng.random() < 0.95 else -1})
            if rng.random() < 0.7:
                acts.append({"a": "prune?"})
            step += rng.choice([0, 1, 1, 2])
    if rng.random() < 0.15:
        acts.insert(rng.randrange(len(acts) + 1), {"a": "attr", "key": "k%d" % rng.randint(0, 1), "val": rng.choice([1, "v", [1, 2], None])})
    r = rng.random()
    if r < p_raise:
        name = common.weighted(rng, [("ValueError", 3), ("RuntimeError", 2), ("TypeError", 0.7), ("ZeroDivisionError", 0.7), ("AssertionError", 0.5), ("StopIteration", 0.4), ("MemoryError", 0.3), ("NotImplementedError", 0.3), ("OSError", 0.3), ("Custom", 2), ("CustomValueError", 1), ("TrialPruned", 3), ("PrunedSub", 0.7), ("KeyboardInterrupt", 2.5), ("KISub", 0.5)])
        pos = rng.randrange(len(acts) + 1) if rng.random() < (0.5 if prefix is None else 0.1) else len(acts)
        acts = acts[:pos] + [{"a": "raise", "exc": name}]
    elif r < p_raise + p_odd:
        acts.append({"a": "ret", "v": gen_value(rng, n_obj)})
    elif r < 0.97:
        acts.append({"a": "ret", "v": gen_good(rng, n_obj)})
    # else: falls off the end -> the stub returns a well-formed default
    return acts


def gen_sampler(rng: random.Random, n_obj: int) -> dict:
    k = common.weighted(rng, [("random", 3), ("tpe", 2.5), ("nsgaii", 2.0 if n_obj > 1 else 0.7), ("qmc", 1.2), ("grid", 1.5), ("brute", 1.5)])
    s: dict[str, Any] = {"kind": k, "seed": rng.randint(0, 999)}
    if k == "tpe":
        s.update({"n_startup_trials": rng.choice([0, 1, 2, 10]), "multivariate": rng.random() < 0.4, "constant_liar": rng.random() < 0.4})
    elif k == "nsgaii":
        s["population_size"] = rng.choice([2, 3, 4])
    elif k == "qmc":
        s.update({"qmc_type": rng.choice(["sobol", "halton"]), "scramble": rng.random() < 0.5})
    elif k == "grid":
        names = rng.sample(sorted(FINITE), common.weighted(rng, [(1, 4), (2, 2)]))
        s["grid"] = {n: (list(FINITE[n]) if rng.random() < 0.5 else rng.sample(FINITE[n], rng.randint(1, 2))) for n in names}
    elif k == "brute":
        s["avoid_premature_stop"] = rng.random() < 0.3
    return s


def gen_pruner(rng: random.Random) -> dict:
    k = common.weighted(rng, [("nop", 3), ("median", 3), ("sha", 2), ("hyperband", 2)])
    p: dict[str, Any] = {"kind": k}
    if k == "median":
        p.update({"n_startup_trials": rng.choice([0, 0, 1, 2]), "n_warmup_steps": rng.choice([0, 0, 1])})
    elif k == "sha":
        p.update({"min_resource": rng.choice([1, 1, 2, "auto"]), "reduction_factor": rng.choice([2, 3])})
    elif k == "hyperband":
        p.update({"min_resource": 1, "max_resource": rng.choice([2, 4, "auto"]), "reduction_factor": rng.choice([2, 3])})
    return p


def _sampler_names(s: dict) -> list[str]:
    if s["kind"] == "grid":
        return sorted(s["grid"])
    if s["kind"] == "brute":
        return sorted(FINITE)
    return sorted(PARAMS)


def gen_pre(rng: random.Random, n_obj: int, names: list[str], heavy: bool, fixed: bool = False) -> tuple[list[dict], list[dict]]:
    done: list[dict] = []
    for _ in range(common.weighted(rng, [(0, 2 if heavy else 5), (1, 2), (2, 2), (3, 2 if heavy else 0.5)])):
        state = common.weighted(rng, [("COMPLETE", 5), ("PRUNED", 1.5), ("FAIL", 1)])
        d: dict[str, Any] = {"state": state, "params": [n for n in names if fixed or rng.random() < 0.6], "pick": rng.randint(0, 5)}
        d["values"] = [rng.choice([0.0, 0.5, 1.0, 2.0, -1.0]) for _ in range(n_obj)] if state == "COMPLETE" else None
        d["inter"] = [rng.choice([0.0, 0.5, 1.0, 2.0, 3.0]) for _ in range(rng.randint(0, 3))] if n_obj == 1 else []
        done.append(d)
    enq: list[dict] = []
    if rng.random() < 0.3:
        for _ in range(rng.randint(1, 2)):
            enq.append({"params": [n for n in names if rng.random() < 0.6], "pick": rng.randint(0, 5)})
    return done, enq


def gen_faults(rng: random.Random, n: int, p: float) -> list[dict]:
    out = []
    if rng.random() < p:
        for _ in range(common.weighted(rng, [(1, 4), (2, 1)])):
            out.append({"t": rng.randrange(max(1, n)), "exc": rng.choice(["RuntimeError", "ValueError", "Custom", "CustomValueError", "KeyboardInterrupt"]), "when": rng.choice(["before", "after"])})
    return out


def gen_plan(seed: int, run: int, tier: str) -> dict:
    rng = common.rng_for(seed, run, "work")
    kind = common.weighted(rng, deployments())
    workload = "optimize" if rng.random() < 0.68 else "asktell"
    n_obj = common.weighted(rng, [(1, 5), (2, 3), (3, 1)])
    sampler = gen_sampler(rng, n_obj)
    pruner = gen_pruner(rng)
    names = _sampler_names(sampler)
    prefix = None
    if sampler["kind"] == "brute" and rng.random() < 0.85:
        # BruteForceSampler needs one deterministic program: same names, same order, everywhere
        prefix = names = rng.sample(names, common.weighted(rng, [(1, 4), (2, 3), (3, 1)]))
    heavy = pruner["kind"] != "nop" or sampler["kind"] in ("tpe", "nsgaii")
    pre_done, pre_enq = gen_pre(rng, n_obj, names, heavy, prefix is not None)
    cfg: dict[str, Any] = {"deployment": kind, "p_line": 0.0, "p_seam": rng.choice([0.1, 0.3, 0.6]), "pool": rng.choice([1, 2, 3]), "snapshot_interval": rng.choice([2, 5, 100]), "read_block": rng.choice([64, 8192])}
    plan: dict[str, Any] = {"check": ID, "seed": seed, "run": run, "cfg": cfg, "workload": workload, "directions": [rng.choice(["minimize", "maximize"]) for _ in range(n_obj)], "sampler": sampler, "pruner": pruner, "pre_done": pre_done}
    if workload == "optimize":
        cached = kind == "cached"
        n_jobs = common.weighted(rng, [(1, 5), (2, 3), (3, 2)])
        n_trials = rng.randint(1, 4 if cached else 6)
        style = common.weighted(rng, [("clean", 1.5), ("mixed", 5), ("wild", 2)])
        p_odd, p_raise = {"clean": (0.0, 0.0), "mixed": (0.2, 0.15), "wild": (0.45, 0.35)}[style]
        plan.update({"n_jobs": n_jobs, "n_trials": n_trials, "catch": rng.choice(CATCHES), "pre_enqueue": pre_enq})
        plan["programs"] = [gen_program(rng, n_obj, names, p_odd, p_raise, prefix) for _ in range(n_trials)]
        plan["faults"] = gen_faults(rng, n_trials, 0.18)
        cb: dict[str, Any] = {"stop_at": None, "raise_at": None}
        if rng.random() < 0.2:
            cb["stop_at"] = rng.randint(1, n_trials)
        if rng.random() < 0.08:
            cb["raise_at"] = rng.randint(1, n_trials)
            cb["exc"] = rng.choice(["RuntimeError", "ValueError", "Custom"])
        plan["callbacks"] = cb
        if rng.random() < 0.35:
            # a second optimize call afterwards: on the same Study object, or on a copy made
            # through the Study pickle protocol (from a checkpointing callback or afterwards)
            plan["again"] = {"n_trials": rng.randint(1, 3), "via": rng.choice(["same", "copy_in_callback", "copy_in_callback", "copy_after"])}
        if n_jobs > 1:
            cfg["p_line"] = rng.choice([0.003, 0.01, 0.03])
        if pruner["kind"] == "hyperband" and rng.random() < 0.5:
            # the storage look-ups that Hyperband's bracket view makes while the trial is
            # being told (study id by name, directions) fail once: the error propagates, but
            # the trial must have been finished with its own outcome first
            plan["tell_faults"] = sorted(set(rng.randrange(n_trials) for _ in range(rng.randint(1, 2))))
        if kind == "cached" and rng.random() < 0.5:
            # heartbeats on; one heartbeat write fails (connection lost): that kills the
            # background thread at most - the trial itself must still end well-formed
            cfg["heartbeat_interval"] = rng.choice([1, 5])
            if rng.random() < 0.7:
                plan["hb_fail"] = {"nth": rng.choice([0, 0, 1, 2])}
    else:
        ntasks = common.weighted(rng, [(1, 5), (2, 5)])
        mode = "threads" if kind == "mem" or rng.random() < 0.5 else "procs"
        plan["mode"] = mode
        plan["tasks"] = _gen_asktell(rng, n_obj, names, ntasks, prefix)
        nslots = 1 + max([o.get("slot", 0) for t in plan["tasks"] for o in t["ops"]] + [0])
        plan["faults"] = gen_faults(rng, nslots, 0.15)
        if ntasks > 1:
            cfg["p_line"] = rng.choice([0.005, 0.02, 0.05])
    plan["sched"] = {"seed": rng.getrandbits(48)}
    return plan


def _gen_tell(rng: random.Random, n_obj: int, slot: int) -> dict:
    state = common.weighted(rng, [(None, 6), ("COMPLETE", 3), ("PRUNED", 2), ("FAIL", 2), ("RUNNING", 0.4), ("WAITING", 0.3)])
    r = rng.random()
    if state in ("PRUNED", "FAIL"):
        values = None if r < 0.8 else gen_good(rng, n_obj)
    elif r < 0.5:
        values = gen_good(rng, n_obj)
    elif r < 0.62:
        values = None
    else:
        values = gen_value(rng, n_obj)
    return {"op": "tell", "slot": slot, "by": rng.choice(["trial", "number"]), "values": values, "state": state, "skip": rng.random() < 0.4}


def _gen_asktell(rng: random.Random, n_obj: int, names: list[str], ntasks: int, prefix: list[str] | None = None) -> list[dict]:
    tasks: list[dict] = [{"ops": []} for _ in range(ntasks)]
    nslots = rng.randint(1, 3)
    owner = {}
    for s in range(nslots):
        ti = rng.randrange(ntasks)
        owner[s] = ti
        ops = tasks[ti]["ops"]
        ops.append({"op": "ask", "slot": s})
        for n in prefix or []:
            ops.append({"op": "act", "slot": s, "a": {"a": "suggest", "p": n}})
        for _ in range(common.weighted(rng, [(0, 3), (1, 3), (2, 1)])):
            if names and prefix is None and rng.random() < 0.5:
                ops.append({"op": "act", "slot": s, "a": {"a": "suggest", "p": rng.choice(names)}})
            else:
                ops.append({"op": "act", "slot": s, "a": {"a": "report", "v": gen_report_value(rng), "step": rng.choice([0, 0, 1, 2])}})
                if rng.random() < 0.3:
                    ops.append({"op": "act", "slot": s, "a": {"a": "prune?"}})
        # the tells on this slot: 1-3, issued by the owner and/or the other task
        for j in range(common.weighted(rng, [(1, 3), (2, 4), (3, 2)])):
            ti2 = ti if (ntasks == 1 or rng.random() < 0.45) else 1 - ti
            tasks[ti2]["ops"].append(_gen_tell(rng, n_obj, s))
    if ntasks > 1:
        # make overlapping tells likely: the non-owner's tells come early in its script (they are
        # skipped until the slot exists, so add a retry of the first one at the end)
        for ti, t in enumerate(tasks):
            tells = [o for o in t["ops"] if o["op"] == "tell" and owner[o["slot"]] != ti]
            if tells and rng.random() < 0.7:
                t["ops"].append(dict(rng.choice(tells)))
    return tasks


# ====================================================================== runner glue
def shrink_paths(plan: dict) -> list[tuple]:
    paths: list[tuple] = []
    if plan.get("faults"):
        paths.append(("faults",))
    if plan.get("workload") == "optimize":
        paths.extend(("programs", i) for i, p in enumerate(plan.get("programs", [])) if p)
        if plan.get("programs"):
            paths.append(("programs",))
        if plan.get("pre_enqueue"):
            paths.append(("pre_enqueue",))
    else:
        paths.extend(("tasks", i, "ops") for i, t in enumerate(plan.get("tasks", [])) if t.get("ops"))
    if plan.get("pre_done"):
        paths.append(("pre_done",))
    if "table" in plan.get("sched", {}) and plan["sched"]["table"]:
        paths.append(("sched", "table"))
    return paths


def signature_class(sig: str) -> str:
    return "|".join(sig.split("|")[:4])


def _act_str(a: dict) -> str:
    k = a.get("a")
    if k == "suggest":
        return "suggest(%s)" % a.get("p")
    if k == "report":
        return "report(%s,%s)" % (value_str(a.get("v")), a.get("step"))
    if k == "prune?":
        return "prune?"
    if k == "attr":
        return "attr(%s)" % a.get("key")
    if k == "raise":
        return "raise %s" % a.get("exc")
    if k == "ret":
        return "return %s" % value_str(a.get("v"))
    return json.dumps(a)


def _op_str(o: dict) -> str:
    k = o.get("op")
    if k == "ask":
        return "ask->#%s" % o.get("slot")
    if k == "act":
        return "#%s.%s" % (o.get("slot"), _act_str(o.get("a", {})))
    if k == "tell":
        return "tell(#%s by %s, %s, state=%s%s)" % (o.get("slot"), o.get("by"), value_str(o["values"]) if o.get("values") is not None else "None", o.get("state"), ", skip_if_finished" if o.get("skip") else "")
    return json.dumps(o)


def _conf_str(plan: dict) -> str:
    return "objectives=%d sampler=%s pruner=%s pre_done=%d" % (len(plan["directions"]), json.dumps(plan["sampler"], sort_keys=True), json.dumps(plan["pruner"], sort_keys=True), len(plan.get("pre_done", [])))


def sample_view(plan: dict, res: dict) -> dict:
    v: dict[str, Any] = {"deployment": plan["cfg"]["deployment"], "workload": plan["workload"], "config": _conf_str(plan), "faults": plan.get("faults", []), "status": res["status"]}
    if plan["workload"] == "optimize":
        v["optimize"] = "n_trials=%d n_jobs=%d catch=%s callbacks=%s enqueued=%d" % (plan["n_trials"], plan["n_jobs"], plan["catch"], json.dumps(plan["callbacks"]), len(plan.get("pre_enqueue", [])))
        v["programs"] = ["; ".join(_act_str(a) for a in p) for p in plan["programs"]]
    else:
        v["mode"] = plan.get("mode")
        v["tasks"] = [[_op_str(o) for o in t["ops"]] for t in plan["tasks"]]
    v["counters"] = {k: n for k, n in res.get("counters", {}).items() if k.startswith(("out:", "ret:", "tell:", "fault:", "stop", "cb"))}
    return v


def run_plan(plan: dict) -> dict:
    import optuna

    optuna.logging.set_verbosity(optuna.logging.CRITICAL)
    cfg = plan["cfg"]
    kind = cfg["deployment"]
    ch = common.make_chooser(plan)
    traced = cfg.get("p_line", 0.0) > 0 or _is_concurrent(plan)
    sim = sched.Sim(ch, trace_suffixes=(common.TRACE_STUDY + common.TRACE_STORAGE) if traced else (), max_steps=300000, uuid_salt=str(plan.get("run", 0)))
    dep = deploy.Deployment(sim, kind, cfg)
    try:
        with warnings.catch_warnings():
            warnings.simplefilter("ignore")
            if plan.get("workload") == "asktell":
                return _run_asktell(plan, sim, ch, dep)
            return _run_optimize(plan, sim, ch, dep)
    finally:
        dep.close()


def _is_concurrent(plan: dict) -> bool:
    if plan.get("workload") == "asktell":
        return len([t for t in plan.get("tasks", []) if t.get("ops")]) > 1
    return int(plan.get("n_jobs", 1)) > 1


# ====================================================================== building blocks
def make_inner_sampler(s: dict) -> Any:
    import optuna

    k = s["kind"]
    seed = int(s.get("seed", 0))
    if k == "random":
        return optuna.samplers.RandomSampler(seed=seed)
    if k == "tpe":
        return optuna.samplers.TPESampler(seed=seed, n_startup_trials=int(s.get("n_startup_trials", 1)), multivariate=bool(s.get("multivariate")), constant_liar=bool(s.get("constant_liar")))
    if k == "nsgaii":
        return optuna.samplers.NSGAIISampler(seed=seed, population_size=int(s.get("population_size", 3)))
    if k == "qmc":
        return optuna.samplers.QMCSampler(seed=seed, qmc_type=s.get("qmc_type", "sobol"), scramble=bool(s.get("scramble")))
    if k == "grid":
        grid = {n: list(v) for n, v in sorted(s.get("grid", {}).items()) if v and n in PARAMS}
        return optuna.samplers.GridSampler(grid, seed=seed)
    if k == "brute":
        return optuna.samplers.BruteForceSampler(seed=seed, avoid_premature_stop=bool(s.get("avoid_premature_stop")))
    raise ValueError(k)


def make_pruner(p: dict) -> Any:
    import optuna

    k = p["kind"]
    if k == "median":
        return optuna.pruners.MedianPruner(n_startup_trials=int(p.get("n_startup_trials", 0)), n_warmup_steps=int(p.get("n_warmup_steps", 0)))
    if k == "sha":
        return optuna.pruners.SuccessiveHalvingPruner(min_resource=p.get("min_resource", 1), reduction_factor=int(p.get("reduction_factor", 2)))
    if k == "hyperband":
        return optuna.pruners.HyperbandPruner(min_resource=int(p.get("min_resource", 1)), max_resource=p.get("max_resource", 4), reduction_factor=int(p.get("reduction_factor", 3)))
    return optuna.pruners.NopPruner()


def sim_cur_name() -> Any:
    from simkit import seams

    s_ = seams.SIM
    return s_.cur.name if s_ is not None and s_.in_task() else None


def make_wrapper(inner: Any, faults: dict[int, dict], R: dict, n_pre_done: int) -> Any:
    """The real sampler behind a wrapper that injects after_trial exceptions and records
    every exception the real sampler raises by itself (so that the oracle can tell
    'whatever the sampler does' from an exception optuna made up)."""
    import optuna

    class Wrapped(optuna.samplers.BaseSampler):
        def infer_relative_search_space(self, study: Any, trial: Any) -> Any:
            return inner.infer_relative_search_space(study, trial)

        def sample_relative(self, study: Any, trial: Any, search_space: Any) -> Any:
            return inner.sample_relative(study, trial, search_space)

        def sample_independent(self, study: Any, trial: Any, name: str, dist: Any) -> Any:
            return inner.sample_independent(study, trial, name, dist)

        def before_trial(self, study: Any, trial: Any) -> None:
            try:
                inner.before_trial(study, trial)
            except sched.SimKilled:
                raise
            except BaseException as e:
                R["ask_exc"].append(e)
                raise

        def after_trial(self, study: Any, trial: Any, state: Any, values: Any) -> None:
            num = trial.number
            if "post_obj" in R:
                R["post_obj"].pop(sim_cur_name(), None)
            f = faults.get(num - n_pre_done)
            R["after_calls"].append((num, state.name))
            if f is not None and f.get("when") == "before":
                e = build_exc(f.get("exc"), "injected into after_trial")
                R["sampler_exc"].setdefault(num, []).append(e)
                R["injected"] += 1
                raise e
            try:
                inner.after_trial(study, trial, state, values)
            except sched.SimKilled:
                raise
            except BaseException as e:
                R["sampler_exc"].setdefault(num, []).append(e)
                R["own_sampler_exc"] += 1
                raise
            if f is not None:
                e = build_exc(f.get("exc"), "injected into after_trial")
                R["sampler_exc"].setdefault(num, []).append(e)
                R["injected"] += 1
                raise e

        def reseed_rng(self) -> None:
            # the real ones reseed from OS entropy (optimize calls this for n_jobs > 1)
            R["reseeds"] += 1

    return Wrapped()


def _fault_map(plan: dict) -> dict[int, dict]:
    out: dict[int, dict] = {}
    for f in plan.get("faults", []):
        if isinstance(f, dict) and isinstance(f.get("t"), int):
            out.setdefault(f["t"], f)
    return out


def do_suggest(trial: Any, name: Any) -> Any:
    p = PARAMS.get(name)
    if p is None:
        return None
    if p["t"] == "cat":
        return trial.suggest_categorical(name, p["choices"])
    if p["t"] == "int":
        return trial.suggest_int(name, p["low"], p["high"])
    return trial.suggest_float(name, p["low"], p["high"], step=p.get("step"), log=bool(p.get("log")))


def do_action(trial: Any, a: dict, reports: dict[int, float], raise_on_prune: bool) -> Any:
    import optuna

    k = a.get("a")
    if k == "suggest":
        return do_suggest(trial, a.get("p"))
    if k == "report":
        v = build_value(a.get("v"))
        step = a.get("step", 0)
        trial.report(v, step)
        reports.setdefault(int(step), float(v))  # "only the first value reported at a step is stored"
        return None
    if k == "prune?":
        r = trial.should_prune()
        if r and raise_on_prune:
            raise optuna.TrialPruned()
        return r
    if k == "attr":
        trial.set_user_attr(str(a.get("key")), a.get("val"))
    return None


def _param_value(name: str, pick: int) -> Any:
    p = PARAMS[name]
    if p["t"] == "cat":
        return p["choices"][pick % len(p["choices"])]
    if p["t"] == "int":
        return p["low"] + pick % (p["high"] - p["low"] + 1)
    if p.get("step"):
        return [0.0, 0.5, 1.0][pick % 3]
    if p.get("log"):
        return [0.001, 0.01, 0.1, 1.0][pick % 4]
    return [-1.0, -0.5, 0.0, 0.25, 0.5, 1.0][pick % 6]


def _dist(name: str) -> Any:
    import optuna

    p = PARAMS[name]
    if p["t"] == "cat":
        return optuna.distributions.CategoricalDistribution(p["choices"])
    if p["t"] == "int":
        return optuna.distributions.IntDistribution(p["low"], p["high"])
    return optuna.distributions.FloatDistribution(p["low"], p["high"], step=p.get("step"), log=bool(p.get("log")))


def _allowed_names(plan: dict) -> set[str]:
    s = plan["sampler"]
    if s["kind"] == "grid":
        return set(n for n, v in s.get("grid", {}).items() if v and n in PARAMS)
    return set(PARAMS)


def populate(study: Any, plan: dict, with_enqueue: bool) -> tuple[int, int]:
    """Pre-existing trials: finished ones first (numbers 0..n-1), then enqueued (WAITING)."""
    import optuna
    from optuna.trial import TrialState

    n_obj = len(plan["directions"])
    allowed = _allowed_names(plan)
    n_done = 0
    for d in plan.get("pre_done", []):
        if not isinstance(d, dict):
            continue
        state = {"COMPLETE": TrialState.COMPLETE, "PRUNED": TrialState.PRUNED, "FAIL": TrialState.FAIL}.get(d.get("state"), TrialState.FAIL)
        names = [n for n in d.get("params", []) if n in PARAMS and n in allowed]
        params = {n: _param_value(n, int(d.get("pick", 0))) for n in names}
        values = None
        if state == TrialState.COMPLETE:
            vs = list(d.get("values") or [])
            values = [float(vs[i]) if i < len(vs) else 0.0 for i in range(n_obj)]
        inter = {i: float(v) for i, v in enumerate(d.get("inter", []))} if n_obj == 1 else {}
        if state == TrialState.PRUNED and inter and n_obj == 1:
            values = [inter[max(inter)]]
        study.add_trial(optuna.trial.create_trial(state=state, values=values, params=params, distributions={n: _dist(n) for n in names}, intermediate_values=inter))
        n_done += 1
    n_enq = 0
    if with_enqueue:
        for d in plan.get("pre_enqueue", []):
            if not isinstance(d, dict):
                continue
            names = [n for n in d.get("params", []) if n in PARAMS and n in allowed]
            study.enqueue_trial({n: _param_value(n, int(d.get("pick", 0))) for n in names})
            n_enq += 1
    return n_done, n_enq


def _directions(plan: dict) -> list[str]:
    d = [x for x in plan.get("directions", []) if x in ("minimize", "maximize")]
    return d or ["minimize"]


def feasibility_check_crashes(study: Any, v: Any) -> bool:
    """Diagnostic only (names the signature, never decides a verdict): does optuna's own
    feasibility test raise on this value instead of answering?"""
    try:
        from optuna.study import _tell

        vals = v if isinstance(v, collections.abc.Sequence) else [v]
        _tell._check_values_are_feasible(study, vals)
        return False
    except Exception:
        return True


def _where(e: BaseException) -> str:
    import traceback

    tb = traceback.extract_tb(e.__traceback__)
    # the deepest frame in the study/trial layer names the place independently of the storage
    for pat in ("/optuna/study/", "/optuna/trial/", "/optuna/"):
        for fr in reversed(tb):
            if pat in fr.filename:
                return "%s:%s" % (fr.filename.split("/optuna/")[-1], fr.name)
    return "%s:%s" % (os.path.basename(tb[-1].filename), tb[-1].name) if tb else "?"


def _frames(e: BaseException) -> list[str]:
    import traceback

    return [fr.name for fr in traceback.extract_tb(e.__traceback__)]


def _sv(state: Any, values: Any) -> tuple:
    return (state.name, None if values is None else [float(x) for x in values])


def _same_values(a: Any, b: Any) -> bool:
    if a is None or b is None:
        return a is None and b is None
    return len(a) == len(b) and all(type(x) is float and (x == y or (x != x and y != y)) for x, y in zip(a, b))


def _exc_kind(e: BaseException) -> str:
    import optuna

    if isinstance(e, optuna.TrialPruned):
        return "TrialPruned"
    if isinstance(e, KeyboardInterrupt):
        return "KeyboardInterrupt"
    return type(e).__name__


# ====================================================================== workload 1: optimize
def _run_optimize(plan: dict, sim: sched.Sim, ch: sched.Chooser, dep: deploy.Deployment) -> dict:
    import optuna
    from optuna.trial import TrialState

    kind = plan["cfg"]["deployment"]
    prefix = "%s|%s|" % (ID, kind)
    dirs = _directions(plan)
    n_obj = len(dirs)
    n_trials = max(1, int(plan.get("n_trials", 1)))
    n_jobs = max(1, int(plan.get("n_jobs", 1)))
    programs = [p if isinstance(p, list) else [] for p in plan.get("programs", [])]
    catch = tuple(_exc_classes()[c] for c in plan.get("catch", []) if c in _exc_classes() and issubclass(_exc_classes()[c], Exception))
    cbspec = plan.get("callbacks") or {}
    R: dict[str, Any] = {"calls": [], "ask_exc": [], "after_calls": [], "sampler_exc": {}, "injected": 0, "own_sampler_exc": 0, "reseeds": 0, "cb": {}, "cb_exc": [], "cb_n": 0, "stops": 0, "stop_at_calls": None, "outcome": None, "n_done": 0, "n_enq": 0, "study": None}
    default_ret = {"k": "float", "v": 0.5} if n_obj == 1 else {"k": "list", "items": [{"k": "float", "v": 0.5}] * n_obj}
    proc = sim.proc("W0")
    st = dep.client(proc)
    hbf = plan.get("hb_fail")
    if hbf and plan["cfg"].get("heartbeat_interval") and hasattr(st, "_backend") and hasattr(st._backend, "record_heartbeat"):
        from optuna.exceptions import StorageInternalError

        inner_st = st._backend
        orig_beat = inner_st.record_heartbeat
        nbeat = [0]

        def record_heartbeat(trial_id: int) -> None:
            nbeat[0] += 1
            if nbeat[0] - 1 == hbf["nth"]:
                sim.count("fault:heartbeat_write_fails")
                raise StorageInternalError("injected: connection lost while recording the heartbeat")
            orig_beat(trial_id)

        inner_st.record_heartbeat = record_heartbeat  # type: ignore[method-assign]
        dep._closers.append(lambda: inner_st.__dict__.pop("record_heartbeat", None))

    R["post_obj"] = {}
    tell_faults = set(int(x) for x in plan.get("tell_faults", []) if isinstance(x, int))
    if tell_faults:
        from optuna.exceptions import StorageInternalError as _SIE

        def _lookup_fault(orig: Any) -> Any:
            def wrapped(*a: Any, **k: Any) -> Any:
                me = sim.cur.name if sim.in_task() else None
                num = R["post_obj"].get(me)
                if num is not None and (num - R["n_done"]) in tell_faults:
                    tell_faults.discard(num - R["n_done"])
                    R["post_obj"].pop(me, None)
                    e = _SIE("injected: connection lost during a study look-up while trial %d was being told" % num)
                    R["sampler_exc"].setdefault(num, []).append(e)
                    R["injected"] += 1
                    sim.count("fault:lookup_fails_during_tell")
                    raise e
                return orig(*a, **k)

            return wrapped

        st.get_study_id_from_name = _lookup_fault(st.get_study_id_from_name)  # type: ignore[method-assign]
        st.get_study_directions = _lookup_fault(st.get_study_directions)  # type: ignore[method-assign]

    def objective(trial: Any) -> Any:
        num = trial.number
        idx = num - R["n_done"]
        rec: dict[str, Any] = {"num": num, "reports": {}, "out": None, "vspec": None}
        R["calls"].append(rec)
        prog = programs[idx] if 0 <= idx < len(programs) else []
        me_task = sim.cur.name if sim.in_task() else None
        R["post_obj"].pop(me_task, None)
        try:
            return _objective_body(trial, num, rec, prog)
        finally:
            R["post_obj"][me_task] = num  # from here on the trial is being told

    def _objective_body(trial: Any, num: int, rec: dict, prog: list) -> Any:
        try:
            for a in prog:
                if not isinstance(a, dict):
                    continue
                if a.get("a") == "ret":
                    v = build_value(a.get("v"))
                    rec["out"], rec["vspec"] = ("ret", v), a.get("v")
                    return v
                if a.get("a") == "raise":
                    raise build_exc(a.get("exc"))
                do_action(trial, a, rec["reports"], True)
            v = build_value(default_ret)
            rec["out"], rec["vspec"] = ("ret", v), default_ret
            return v
        except sched.SimKilled:
            raise
        except BaseException as e:
            rec["out"] = ("raise", e)
            raise

    def cb_record(study_: Any, ft: Any) -> None:
        stored = None
        for t in study_.get_trials(deepcopy=False):
            if t.number == ft.number:
                stored = _sv(t.state, t.values)
        R["cb"].setdefault(ft.number, []).append((_sv(ft.state, ft.values), stored))

    def cb_fault(study_: Any, ft: Any) -> None:
        R["cb_n"] += 1
        if cbspec.get("raise_at") == R["cb_n"]:
            e = build_exc(cbspec.get("exc"), "injected into a callback")
            R["cb_exc"].append(e)
            sim.count("fault:callback_raises")
            raise e
        if cbspec.get("stop_at") == R["cb_n"]:
            sim.count("fault:callback_stops")
            study_.stop()

    again = plan.get("again")

    def copy_of(study_: Any) -> Any:
        # what pickle.loads(pickle.dumps(study)) does with the Study object itself; storage,
        # sampler and pruner are shared instead of serialised (they hold simulator handles)
        state = study_.__getstate__()
        state.pop("stop", None)
        new_ = optuna.study.Study.__new__(optuna.study.Study)
        new_.__setstate__(state)
        return new_

    def cb_checkpoint(study_: Any, ft: Any) -> None:
        R["checkpoint"] = copy_of(study_)
        sim.count("checkpoint_in_callback")

    # The study and its pre-existing trials are made by the harness thread (not traced, never
    # yields): the number of line events of the list comprehension in optuna.create_study
    # differs between the first and later executions in one interpreter (see C20).
    study = optuna.create_study(storage=st, sampler=optuna.samplers.RandomSampler(seed=0), pruner=make_pruner(plan["pruner"]), study_name=STUDY, directions=dirs)
    R["study"] = study
    R["n_done"], R["n_enq"] = populate(study, plan, True)
    # faults are keyed by the index among the trials of this call
    study.sampler = make_wrapper(make_inner_sampler(plan["sampler"]), _fault_map(plan), R, R["n_done"])
    orig_stop = study.stop

    def stop_recorder() -> None:
        R["stops"] += 1
        if R["stop_at_calls"] is None:
            R["stop_at_calls"] = len(R["calls"])
        orig_stop()

    study.stop = stop_recorder  # type: ignore[method-assign]
    if hasattr(st, "remove_session"):
        st.remove_session()

    def body() -> None:
        cbs = [cb_record]
        if cbspec.get("raise_at") or cbspec.get("stop_at"):
            cbs = [cb_fault, cb_record] if cbspec.get("raise_at") else [cb_record, cb_fault]
        if again and again["via"] == "copy_in_callback":
            cbs = cbs + [cb_checkpoint]
        try:
            study.optimize(objective, n_trials=n_trials, n_jobs=n_jobs, catch=catch, callbacks=cbs)
            R["outcome"] = ("returned", None)
        except (sched.SimKilled, sched.HarnessError, sched.SimDeadlock):
            raise
        except BaseException as e:
            R["outcome"] = ("raised", e)
        # the property speaks about the moment optimize returns or raises: snapshot the trial
        # states and the callback log right now (other pool threads may still be running if
        # optimize failed to join them)
        with sim.atomic():
            try:
                R["at_return"] = {tr.number: tr.state.name for tr in study._storage.get_all_trials(study._study_id, deepcopy=False)}
            except Exception:  # noqa
                R["at_return"] = None
            R["cb_at_return"] = {k: len(v) for k, v in R["cb"].items()}
        if again and R["at_return"] is not None and "RUNNING" not in R["at_return"].values():
            A: dict[str, Any] = {"calls": 0, "cb": {}, "first_end": len(R["at_return"]), "outcome": None, "via": again["via"], "nums": []}
            if again["via"] == "same":
                s2 = study
            elif again["via"] == "copy_in_callback" and R.get("checkpoint") is not None:
                s2 = R["checkpoint"]
            else:
                A["via"] = "copy_after"
                s2 = copy_of(study)
            s2.sampler = optuna.samplers.RandomSampler(seed=1)
            s2.pruner = optuna.pruners.NopPruner()

            def obj2(trial: Any) -> Any:
                A["calls"] += 1
                A["nums"].append(trial.number)
                trial.suggest_float("again", 0.0, 1.0)
                return [0.5] * n_obj if n_obj > 1 else 0.5

            def cb2(study_: Any, ft: Any) -> None:
                A["cb"][ft.number] = A["cb"].get(ft.number, 0) + 1

            R["again"] = A
            try:
                s2.optimize(obj2, n_trials=again["n_trials"], n_jobs=1, callbacks=[cb2])
                A["outcome"] = ("returned", None)
            except (sched.SimKilled, sched.HarnessError, sched.SimDeadlock):
                raise
            except BaseException as e:
                A["outcome"] = ("raised", e)

    t = sim.spawn(proc, "w0", body)
    status = sim.run()
    if status != "ok":
        if t.exc is not None and not isinstance(t.exc, sched.SimKilled):
            raise t.exc
        return common.result(sim, ch, "violation" if status == "deadlock" else "inconclusive", prefix + status + "|optimize", status + " in optimize(n_jobs=%d)" % n_jobs, nontrivial=False)
    if t.exc is not None:
        raise t.exc

    # ------------------------------------------------------------------ what is in the storage
    seams.set_sim(sim, dep.fs)
    obs = dep.observer()
    trials = obs.get_all_trials(obs.get_study_id_from_name(STUDY), deepcopy=False)
    n_done = R["n_done"]
    A = R.get("again")
    later = []
    if A is not None:
        # trials of the later call: new ones, and enqueued ones it picked up
        later = [tr for tr in trials if tr.number >= A["first_end"] or tr.number in A["nums"]]
        trials = [tr for tr in trials if not (tr.number >= A["first_end"] or tr.number in A["nums"])]
    new = [tr for tr in trials if tr.number >= n_done]
    started = [tr for tr in new if tr.state != TrialState.WAITING]
    calls: dict[int, list[dict]] = {}
    for rec in R["calls"]:
        calls.setdefault(rec["num"], []).append(rec)
    outcome = R["outcome"]

    lines = []
    for tr in new:
        rec = (calls.get(tr.number) or [None])[0]
        if rec is None:
            what = "objective not called"
        elif rec["out"] is None:
            what = "objective did not finish"
        elif rec["out"][0] == "ret":
            what = "returned %s" % value_str(rec["vspec"])
        else:
            what = "raised %s" % type(rec["out"][1]).__name__
        se = R["sampler_exc"].get(tr.number)
        lines.append("trial %d: %s%s -> %s values=%r callbacks=%d" % (tr.number, what, "; after_trial raised %s" % type(se[0]).__name__ if se else "", tr.state.name, tr.values, len(R["cb"].get(tr.number, []))))
    oc = "returned" if outcome[0] == "returned" else "raised %s(%s) at %s" % (type(outcome[1]).__name__, str(outcome[1])[:80], _where(outcome[1]))
    tail = "\n  %s\n  optimize(n_trials=%d, n_jobs=%d, catch=%s, callbacks=%s) %s; study.stop() calls: %d; pre-existing: %d finished, %d enqueued\n    %s" % (_conf_str(plan), n_trials, n_jobs, plan.get("catch"), json.dumps(cbspec), oc, R["stops"], n_done, R["n_enq"], "\n    ".join(lines))

    for tr in new:
        sim.note("trial", tr.number, tr.state.name, repr(tr.values), len(R["cb"].get(tr.number, [])))
    sim.note("outcome", outcome[0], type(outcome[1]).__name__, R["stops"], [(r["num"], r["out"][0] if r["out"] else None) for r in R["calls"]])

    # evidence counters
    extra: dict[str, int] = {"workload:optimize": 1, "trials_run": len(started), "n_jobs:%d" % n_jobs: 1, "sampler:" + plan["sampler"]["kind"]: 1, "pruner:" + plan["pruner"]["kind"]: 1, "objectives:%d" % n_obj: 1}
    odd = 0
    for rec in R["calls"]:
        if rec["out"] is None:
            continue
        if rec["out"][0] == "ret":
            extra["ret:" + kind_of(rec["vspec"]).split("[")[0]] = extra.get("ret:" + kind_of(rec["vspec"]).split("[")[0], 0) + 1
            if spec_outcome(rec["out"][1], n_obj)[0] != "COMPLETE" or isinstance(rec["out"][1], STR_LIKE):
                odd += 1
        else:
            extra["out:raise:" + _exc_kind(rec["out"][1])] = extra.get("out:raise:" + _exc_kind(rec["out"][1]), 0) + 1
            odd += 1
    if R["injected"]:
        extra["fault:after_trial_raises"] = R["injected"]
    if R["own_sampler_exc"]:
        extra["sampler_raised_by_itself"] = R["own_sampler_exc"]
    if R["stops"]:
        extra["stop_calls"] = R["stops"]
        if not cbspec.get("stop_at") or R["stops"] > 1:
            extra["stop_by_sampler"] = 1
    if outcome[0] == "raised":
        extra["optimize_raised"] = 1
    for tr in started:
        extra["final:" + tr.state.name] = extra.get("final:" + tr.state.name, 0) + 1
    nontrivial = len(started) >= 2 and (odd > 0 or R["injected"] > 0 or R["stops"] > 0 or bool(R["cb_exc"]))

    def violation(clause: str, why: str, detail: str) -> dict:
        return common.result(sim, ch, "violation", prefix + clause + "|" + why, detail + tail, nontrivial=nontrivial, extra_counters=extra)

    if R["ask_exc"]:
        # the real sampler raised inside ask(): outside the property's window (see assumptions)
        extra["sampler_raised_in_ask"] = 1
        return common.result(sim, ch, "inconclusive", None, "sampler raised %s inside ask()" % type(R["ask_exc"][0]).__name__, nontrivial=False, extra_counters=extra)

    # ------------------------------------------------------------------ (a) nothing left RUNNING
    at_ret = R.get("at_return")
    if at_ret is not None:
        for num, st_name in sorted(at_ret.items()):
            if num >= n_done and st_name == "RUNNING":
                return violation("left-running", "at-return|n_jobs%s" % ("=1" if n_jobs == 1 else ">1"), "trial %d was still RUNNING at the moment optimize %s (it finished later: %s)" % (num, oc, next((tr.state.name for tr in trials if tr.number == num), "?")))
    for tr in started:
        recs = calls.get(tr.number, [])
        if len(recs) > 1:
            return violation("double-run", "objective called %d times for one trial" % len(recs), "trial %d was handed to the objective %d times" % (tr.number, len(recs)))
        if tr.state != TrialState.RUNNING:
            continue
        rec = recs[0] if recs else None
        se = R["sampler_exc"].get(tr.number)
        if rec is not None and rec["out"] is not None and rec["out"][0] == "ret" and not se and feasibility_check_crashes(study, rec["out"][1]):
            why = "unfeasible-check-crash|%s" % kind_of(rec["vspec"])
        elif se:
            why = "after_trial-raised|%s" % type(se[0]).__name__
        elif rec is None or rec["out"] is None:
            why = "no-objective-result|"
        elif rec["out"][0] == "ret":
            why = "after-return|%s" % kind_of(rec["vspec"])
        else:
            why = "objective-raised|%s" % _exc_kind(rec["out"][1])
        return violation("left-running", why, "trial %d is still RUNNING after optimize %s" % (tr.number, oc))
    for tr in new:
        if tr.state == TrialState.WAITING and (tr.number - n_done >= R["n_enq"] or calls.get(tr.number)):
            return violation("left-waiting", "a trial of this call is WAITING", "trial %d is WAITING but was not enqueued before the call (or was run)" % tr.number)
    for num in calls:
        if num < n_done or num >= len(trials):
            return violation("phantom-trial", "objective ran for a trial that is not in the storage", "objective was called with trial number %d; storage has %d trials (%d pre-existing finished)" % (num, len(trials), n_done))

    # ------------------------------------------------------------------ (b) (c) expected outcome
    propagating: dict[int, list[BaseException]] = {}
    must: list[BaseException] = []
    for tr in started:
        rec = calls[tr.number][0] if calls.get(tr.number) else None
        if rec is None or rec["out"] is None:
            return violation("no-objective-result", "finished trial without an objective result", "trial %d is %s but the objective never finished for it" % (tr.number, tr.state.name))
        got = _sv(tr.state, tr.values)
        if rec["out"][0] == "ret":
            v = rec["out"][1]
            exp = spec_outcome(v, n_obj)
            alts = [exp] + ([("FAIL", None)] if isinstance(v, STR_LIKE) else [])
            what = "returned %s" % kind_of(rec["vspec"])
        else:
            e = rec["out"][1]
            if isinstance(e, optuna.TrialPruned):
                last = rec["reports"][max(rec["reports"])] if rec["reports"] else None
                alts = [("PRUNED", None)]
                if last is not None and last == last and n_obj == 1:
                    alts.append(("PRUNED", [last]))
                what = "raised TrialPruned"
            else:
                alts = [("FAIL", None)]
                what = "raised %s" % _exc_kind(e)
                if not isinstance(e, catch):
                    propagating.setdefault(tr.number, []).append(e)
                    must.append(e)
        if tr.state == TrialState.FAIL and tr.values is not None:
            return violation("fail-has-values", what, "trial %d is FAIL with values %r" % (tr.number, tr.values))
        if got[0] not in [a[0] for a in alts]:
            return violation("wrong-state", "%s expected, %s stored|%s" % ("/".join(sorted(set(a[0] for a in alts))), got[0], what), "trial %d (%s): expected %s, storage has %s" % (tr.number, what, alts, got))
        if not any(a[0] == got[0] and _same_values(tr.values, a[1]) for a in alts):
            return violation("wrong-values", "%s|%s" % (got[0], what), "trial %d (%s): expected %s, storage has %s" % (tr.number, what, alts, got))
        for e in R["sampler_exc"].get(tr.number, []):
            propagating.setdefault(tr.number, []).append(e)

    # ------------------------------------------------------------------ (d) what comes out of optimize
    allowed = [e for es in propagating.values() for e in es] + list(R["cb_exc"])
    if outcome[0] == "raised":
        e = outcome[1]
        chain: list[BaseException] = []
        x: BaseException | None = e
        while x is not None and len(chain) < 8:
            chain.append(x)
            x = x.__cause__ or x.__context__
        if isinstance(e, optuna.exceptions.UpdateFinishedTrialError) and not any(e is a for a in allowed) and "_pop_waiting_trial_id" in _frames(e):
            # ask() listed a WAITING trial that another worker claimed *and finished* before this
            # worker's claim: the storage's UpdateFinishedTrialError escapes from ask().  An
            # exception inside ask() is outside C02's clauses and nobody's trial is ill-formed
            # (C04 counts it too): observation only; (d), (f), (g) are not evaluated on this run.
            extra["obs_ask_lost_to_finished_trial"] = 1
            return common.result(sim, ch, "ok", nontrivial=nontrivial, extra_counters=extra)
        if not any(e is a for a in allowed) and any(c is a for c in chain for a in R["cb_exc"] + [se for ses in R["sampler_exc"].values() for se in ses]):
            # raised while optuna was handling the sampler's / callback's exception (e.g. the
            # "Should not reach" assertion in _run_trial's finally): the trial is well-formed,
            # the property says nothing about which exception wins
            extra["exception_replaced_while_handling_sampler_exception"] = 1
        elif not any(e is a for a in allowed):
            return violation("unexpected-exception", "%s at %s" % (type(e).__name__, _where(e)), "optimize raised %s(%s), which neither the objective, the sampler nor a callback raised (or which is listed in catch)" % (type(e).__name__, str(e)[:200]))
    elif must:
        return violation("not-propagated", "n_jobs%s|%s" % ("=1" if n_jobs == 1 else ">1", _exc_kind(must[0])), "optimize returned normally although the objective raised %s, which is not in catch=%s" % (", ".join(type(x).__name__ for x in must), plan.get("catch")))
    elif allowed and n_jobs == 1:
        return violation("not-propagated", "n_jobs=1|sampler-or-callback", "optimize (n_jobs=1) returned normally although %s was raised by after_trial/a callback" % type(allowed[0]).__name__)

    # ------------------------------------------------------------------ (f) callbacks
    started_nums = set(tr.number for tr in started)
    by_num = {tr.number: tr for tr in trials}
    for num, cbl in sorted(R["cb"].items()):
        if num not in started_nums:
            return violation("callbacks", "callback for a trial not run by this call", "callback invoked for trial %d" % num)
        fin = _sv(by_num[num].state, by_num[num].values)
        for arg, stored in cbl:
            if arg[0] not in ("COMPLETE", "PRUNED", "FAIL") or stored is None or stored[0] not in ("COMPLETE", "PRUNED", "FAIL"):
                return violation("callbacks", "called before the trial was finished", "callback for trial %d got a %s trial while the storage had %s" % (num, arg[0], stored))
            if arg[0] != fin[0] or not _same_values(arg[1], fin[1]) or stored[0] != fin[0] or not _same_values(stored[1], fin[1]):
                return violation("callbacks", "callback saw another outcome than the final one", "callback for trial %d got %s, storage then had %s, final %s" % (num, arg, stored, fin))
    for tr in started:
        n = len(R["cb"].get(tr.number, []))
        if n > 1:
            return violation("callbacks", "called %d times for one trial" % n, "recording callback ran %d times for trial %d" % (n, tr.number))
        if n == 0 and tr.number not in propagating and not cbspec.get("raise_at"):
            return violation("callbacks", "not called for a trial whose exception did not propagate", "recording callback never ran for trial %d (%s)" % (tr.number, tr.state.name))

    # ------------------------------------------------------------------ (g) how many trials ran
    n_started = len(started)
    if n_started > n_trials:
        return violation("n-trials", "more than n_trials trials ran", "%d trials ran, n_trials=%d" % (n_started, n_trials))
    if outcome[0] == "returned" and R["stops"] == 0 and n_started != n_trials:
        return violation("n-trials", "fewer than n_trials trials ran although nothing stopped the loop", "%d trials ran, n_trials=%d, optimize returned normally, study.stop() was never called" % (n_started, n_trials))
    if n_jobs == 1:
        if outcome[0] == "raised":
            src = [num for num, es in propagating.items() if any(outcome[1] is x for x in es)]
            last = max(started_nums) if started_nums else None
            if src and last is not None and src[0] != max(r["num"] for r in R["calls"]):
                return violation("n-trials", "a trial started after the exception that ended optimize", "the exception of trial %d propagated, but trial %d was run after it" % (src[0], max(r["num"] for r in R["calls"])))
        elif R["stop_at_calls"] is not None and n_started != R["stop_at_calls"]:
            return violation("n-trials", "a trial started after study.stop()", "study.stop() was called when %d trials had started; %d trials ran" % (R["stop_at_calls"], n_started))
    # ------------------------------------------------------------------ a later optimize call
    if A is not None:
        extra["again:" + A["via"]] = 1
        k = again["n_trials"]
        desc = "a later optimize(n_trials=%d) on %s" % (k, {"same": "the same Study object", "copy_in_callback": "a copy of the Study made through its pickle protocol in a callback of the first call", "copy_after": "a copy of the Study made through its pickle protocol"}[A["via"]])
        if A["outcome"] is None or A["outcome"][0] != "returned":
            e = A["outcome"][1] if A["outcome"] else None
            return violation("again", "a later optimize call raised", "%s raised %s(%s)" % (desc, type(e).__name__, str(e)[:200]))
        if A["calls"] != k or len(later) != k:
            return violation("n-trials", "a later optimize call did not run n_trials trials although nothing stopped it", "%s called the objective %d times and created %d trials" % (desc, A["calls"], len(later)))
        for tr in later:
            if tr.state != TrialState.COMPLETE:
                return violation("again", "a trial of a later optimize call is not COMPLETE", "%s left trial %d %s" % (desc, tr.number, tr.state.name))
            if A["cb"].get(tr.number, 0) != 1:
                return violation("callbacks", "called %d times for one trial of a later optimize call" % A["cb"].get(tr.number, 0), "%s: callback ran %d times for trial %d" % (desc, A["cb"].get(tr.number, 0), tr.number))
    return common.result(sim, ch, "ok", nontrivial=nontrivial, extra_counters=extra)


# ====================================================================== workload 2: ask / tell
def _intended(values: Any, state_name: Any, n_obj: int, last: Any) -> list[tuple]:
    """Acceptable behaviours of tell(values, state) on a RUNNING trial: ('finish', state,
    values) and/or ('argerror',) = raises and leaves the trial RUNNING."""
    if state_name in ("RUNNING", "WAITING"):
        return [("argerror",)]
    lenient = isinstance(values, STR_LIKE)
    if state_name == "COMPLETE":
        if values is None:
            return [("argerror",)]
        exp = spec_outcome(values, n_obj)
        if exp[0] != "COMPLETE":
            return [("argerror",)]
        return [("finish",) + exp] + ([("argerror",)] if lenient else [])
    if state_name == "FAIL":
        return [("argerror",)] if values is not None else [("finish", "FAIL", None)]
    if state_name == "PRUNED":
        if values is not None:
            return [("argerror",)]
        out: list[tuple] = [("finish", "PRUNED", None)]
        if last is not None and last == last and n_obj == 1:
            out = [("finish", "PRUNED", [last])]
        return out
    if values is None:
        return [("finish", "FAIL", None)]
    exp = spec_outcome(values, n_obj)
    return [("finish",) + exp] + ([("finish", "FAIL", None)] if lenient and exp[0] != "FAIL" else [])


def _run_asktell(plan: dict, sim: sched.Sim, ch: sched.Chooser, dep: deploy.Deployment) -> dict:
    import optuna
    from optuna.trial import TrialState

    kind = plan["cfg"]["deployment"]
    prefix = "%s|%s|" % (ID, kind)
    dirs = _directions(plan)
    n_obj = len(dirs)
    specs = [t for t in plan.get("tasks", []) if isinstance(t, dict) and t.get("ops")]
    ntasks = len(specs)
    concurrent = ntasks > 1
    use_procs = plan.get("mode") == "procs" and kind != "mem"
    R: dict[str, Any] = {"ask_exc": [], "after_calls": [], "sampler_exc": {}, "injected": 0, "own_sampler_exc": 0, "reseeds": 0, "n_done": 0}
    STATES = {"COMPLETE": TrialState.COMPLETE, "PRUNED": TrialState.PRUNED, "FAIL": TrialState.FAIL, "RUNNING": TrialState.RUNNING, "WAITING": TrialState.WAITING}
    slots: dict[int, dict] = {}
    tells: list[dict] = []
    active: dict[int, list[dict]] = {}
    trace: list[str] = []
    studies: list[Any] = []
    procs = [sim.proc("W%d" % i) for i in range(max(1, ntasks if use_procs else 1))]

    # set-up by the harness thread (not traced, never yields; see _run_optimize)
    for i in range(len(procs)):
        st = dep.client(procs[i])
        if i == 0:
            study = optuna.create_study(storage=st, sampler=optuna.samplers.RandomSampler(seed=0), pruner=make_pruner(plan["pruner"]), study_name=STUDY, directions=dirs)
            R["n_done"], _ = populate(study, plan, False)
        else:
            study = optuna.load_study(study_name=STUDY, storage=st, pruner=make_pruner(plan["pruner"]))
        study.sampler = make_wrapper(make_inner_sampler(plan["sampler"]), _fault_map(plan), R, R["n_done"])
        studies.append(study)
        if hasattr(st, "remove_session"):
            st.remove_session()

    def read_back(study: Any, number: int) -> Any:
        for tr in study.get_trials(deepcopy=False):
            if tr.number == number:
                return _sv(tr.state, tr.values)
        return None

    def make_task(ti: int, ops: list) -> Any:
        study = studies[ti if use_procs else 0]
        name = "t%d" % ti

        def body() -> None:
            for op in ops:
                if not isinstance(op, dict):
                    continue
                sim.seam("step")
                k = op.get("op")
                s = op.get("slot")
                if k == "ask":
                    if s in slots or not isinstance(s, int):
                        continue
                    tr = study.ask()
                    slots[s] = {"trial": tr, "number": tr.number, "reports": {}, "owner": ti}
                    trace.append("%s: ask -> #%d = trial %d" % (name, s, tr.number))
                    sim.note("ask", name, s, tr.number)
                    continue
                if s not in slots and concurrent and isinstance(s, int):
                    # the other task asks for this trial: wait for it (bounded on the virtual
                    # clock, so that a plan whose ask was deleted stays valid)
                    sim.block_until(lambda s=s: s in slots, "slot", 5.0)
                sl = slots.get(s)
                if sl is None:
                    sim.count("op_skipped_no_slot")
                    continue
                if k == "act":
                    a = op.get("a") or {}
                    try:
                        r = do_action(sl["trial"], a, sl["reports"], False)
                        trace.append("%s: %s -> %r" % (name, _op_str(op), r))
                        sim.note("act", name, s, a.get("a"), repr(r))
                    except (sched.SimKilled, sched.HarnessError, sched.SimDeadlock):
                        raise
                    except Exception as e:
                        trace.append("%s: %s raised %s" % (name, _op_str(op), type(e).__name__))
                        sim.note("act", name, s, a.get("a"), type(e).__name__)
                    continue
                if k != "tell":
                    continue
                values = build_value(op["values"]) if op.get("values") is not None else None
                state = STATES.get(op.get("state"))
                last = sl["reports"][max(sl["reports"])] if sl["reports"] else None
                rec: dict[str, Any] = {"slot": s, "task": name, "op": op, "values": values, "skip": bool(op.get("skip")), "alts": _intended(values, op.get("state"), n_obj, last), "overlap": False, "res": None, "after": None, "inv": sim.stamp(), "ret": None, "reports_then": dict(sl["reports"])}
                for other in active.setdefault(s, []):
                    other["overlap"] = True
                    rec["overlap"] = True
                active[s].append(rec)
                tells.append(rec)
                arg = sl["trial"] if op.get("by") == "trial" else sl["number"]
                try:
                    ft = study.tell(arg, values, state=state, skip_if_finished=rec["skip"])
                    rec["res"] = ("ret", _sv(ft.state, ft.values))
                except (sched.SimKilled, sched.HarnessError, sched.SimDeadlock):
                    raise
                except BaseException as e:
                    rec["res"] = ("exc", e)
                finally:
                    rec["ret"] = sim.stamp()
                    active[s].remove(rec)
                if not concurrent:
                    rec["after"] = read_back(study, sl["number"])
                rs = "-> %s %r" % rec["res"][1] if rec["res"][0] == "ret" else "raised %s(%s)" % (type(rec["res"][1]).__name__, str(rec["res"][1])[:60])
                trace.append("%s: %s %s%s%s" % (name, _op_str(op), rs, "; read back %s" % (rec["after"],) if rec["after"] else "", " [overlapped]" if rec["overlap"] else ""))
                sim.note("tell", name, s, rec["res"][0], rec["res"][1] if rec["res"][0] == "ret" else type(rec["res"][1]).__name__, rec["after"])

        return body

    tasks = [sim.spawn(procs[ti if use_procs else 0], "t%d" % ti, make_task(ti, sp["ops"])) for ti, sp in enumerate(specs)]
    status = sim.run() if tasks else "ok"
    if status != "ok":
        for t in tasks:
            if t.exc is not None and not isinstance(t.exc, sched.SimKilled):
                raise t.exc
        return common.result(sim, ch, "violation" if status == "deadlock" else "inconclusive", prefix + status + "|asktell", status, nontrivial=False)
    for t in tasks:
        if t.exc is not None:
            raise t.exc

    seams.set_sim(sim, dep.fs)
    obs = dep.observer()
    trials = obs.get_all_trials(obs.get_study_id_from_name(STUDY), deepcopy=False)
    by_num = {tr.number: tr for tr in trials}
    tail = "\n  %s mode=%s\n  history:\n    %s\n  final: %s" % (_conf_str(plan), "procs" if use_procs else "threads", "\n    ".join(trace), ", ".join("#%d=trial %d %s %r" % (s, sl["number"], by_num[sl["number"]].state.name, by_num[sl["number"]].values) for s, sl in sorted(slots.items()) if sl["number"] in by_num))
    for s, sl in sorted(slots.items()):
        tr = by_num.get(sl["number"])
        sim.note("final", s, sl["number"], tr.state.name if tr else None, repr(tr.values) if tr else None)

    extra: dict[str, int] = {"workload:asktell": 1, "asktell_tasks:%d" % ntasks: 1, "sampler:" + plan["sampler"]["kind"]: 1, "objectives:%d" % n_obj: 1, "tells": len(tells)}
    if use_procs:
        extra["asktell_procs"] = 1
    if R["injected"]:
        extra["fault:after_trial_raises"] = R["injected"]
    if R["own_sampler_exc"]:
        extra["sampler_raised_by_itself"] = R["own_sampler_exc"]
    n_overlap = sum(1 for r in tells if r["overlap"])
    if n_overlap:
        extra["tell:overlapped"] = n_overlap

    def finish(status_: str, clause: str = "", why: str = "", detail: str = "") -> dict:
        nontrivial = len(tells) >= 2 and (extra.get("tell:on_finished", 0) > 0 or n_overlap > 0 or R["injected"] > 0 or extra.get("tell:argerror", 0) > 0)
        if status_ == "ok":
            return common.result(sim, ch, "ok", nontrivial=nontrivial, extra_counters=extra)
        return common.result(sim, ch, status_, prefix + clause + "|" + why, detail + tail, nontrivial=nontrivial, extra_counters=extra)

    if R["ask_exc"]:
        extra["sampler_raised_in_ask"] = 1
        return finish("inconclusive", "ask", "sampler raised inside ask()", type(R["ask_exc"][0]).__name__)

    def explainable(e: BaseException, num: int) -> bool:
        return any(e is x for x in R["sampler_exc"].get(num, []))

    def matches(now: tuple, alt: tuple, s: int) -> bool:
        """Does the (state, values) pair `now` realise the told outcome `alt`?  With two tasks a
        report may race with a tell(PRUNED): then any reported value (or none) is accepted."""
        if now[0] != alt[1]:
            return False
        if _same_values(now[1], alt[2]):
            return True
        if alt[1] == "PRUNED" and concurrent:
            return now[1] is None or (len(now[1]) == 1 and n_obj == 1 and any(now[1][0] == v for v in slots[s]["reports"].values()))
        return False

    for s, sl in sorted(slots.items()):
        num = sl["number"]
        tr = by_num.get(num)
        if tr is None:
            return finish("violation", "phantom-trial", "asked trial is not in the storage", "slot #%d: trial %d not found by the observer" % (s, num))
        F = _sv(tr.state, tr.values)
        mine = sorted([r for r in tells if r["slot"] == s], key=lambda r: r["inv"])
        if F[0] == "FAIL" and F[1] is not None:
            return finish("violation", "fail-has-values", "tell", "trial %d is FAIL with values %r" % (num, F[1]))
        if F[0] == "WAITING":
            return finish("violation", "left-waiting", "asked trial is WAITING", "trial %d" % num)
        # when is the trial known to be finished?
        known: int | None = None
        finisher_seen = False
        model: tuple | None = None  # one-task runs: the state the trial must have (None = RUNNING)
        for r in mine:
            res = r["res"]
            fin_alts = [a for a in r["alts"] if a[0] == "finish"]
            may_argerror = any(a[0] == "argerror" for a in r["alts"])
            vkind = kind_of(r["op"].get("values")) if r["op"].get("values") is not None else "None"
            what = _op_str(r["op"])
            on_finished = known is not None and r["inv"] > known
            if res[0] == "ret" and (res[1][0] != F[0] or not _same_values(res[1][1], F[1])):
                return finish("violation", "tell-finished", "a returned result differs from the final trial", "%s returned %s but the trial finally is %s: a finished trial was altered (or tell returned something it did not store)" % (what, res[1], F))
            if on_finished:
                extra["tell:on_finished"] = extra.get("tell:on_finished", 0) + 1
                if r["skip"] and res[0] != "ret":
                    return finish("violation", "tell-finished", "skip_if_finished=True raised", "%s on the finished trial %d raised %s" % (what, num, type(res[1]).__name__))
                if not r["skip"] and res[0] == "ret":
                    return finish("violation", "tell-finished", "skip_if_finished=False did not raise", "%s on the finished trial %d returned %s" % (what, num, res[1]))
                if not concurrent and r["after"] is not None and model is not None and (r["after"][0] != model[0] or not _same_values(r["after"][1], model[1])):
                    return finish("violation", "tell-finished", "finished trial changed", "%s: trial %d was %s before and is %s after" % (what, num, model, r["after"]))
                continue
            exclusive = not r["overlap"] and not finisher_seen
            if fin_alts:
                finisher_seen = True
            if res[0] == "ret" and known is None:
                known = r["ret"]
            elif res[0] == "ret":
                known = min(known, r["ret"])
            if not exclusive:
                continue
            # ---- a tell on a trial that is certainly RUNNING and that nobody else is telling
            if not fin_alts:
                extra["tell:argerror"] = extra.get("tell:argerror", 0) + 1
                if res[0] == "ret":
                    return finish("violation", "bad-args-accepted", "state=%s values=%s" % (r["op"].get("state"), "None" if r["values"] is None else "given"), "%s returned %s; such arguments must be rejected" % (what, res[1]))
                if not concurrent and r["after"] is not None and r["after"][0] != "RUNNING":
                    return finish("violation", "bad-args-accepted", "rejected tell changed the trial", "%s raised %s but the trial is now %s" % (what, type(res[1]).__name__, r["after"]))
                finisher_seen = False
                continue
            extra["tell:finish"] = extra.get("tell:finish", 0) + 1
            if concurrent:
                now = F if not any(o["inv"] > r["ret"] and [a for a in o["alts"] if a[0] == "finish"] for o in mine) else None
            else:
                now = r["after"]
            if res[0] == "exc" and may_argerror:
                if explainable(res[1], num):
                    continue  # it may or may not have finished the trial
                if now is None or now[0] == "RUNNING":
                    finisher_seen = False
                    continue  # str-like values with state=COMPLETE: rejecting them is accepted
            ok_alt = None
            for a in fin_alts:
                if now is not None and matches(now, a, s):
                    ok_alt = a
            if now is not None and ok_alt is None:
                if now[0] == "RUNNING":
                    if r["values"] is not None and feasibility_check_crashes(studies[0], r["values"]):
                        return finish("violation", "left-running", "unfeasible-check-crash|%s" % vkind, "%s raised %s(%s) and left trial %d RUNNING" % (what, type(res[1]).__name__ if res[0] == "exc" else "-", str(res[1])[:100], num))
                    se = R["sampler_exc"].get(num)
                    why = "after_trial-raised|%s" % type(se[0]).__name__ if se else "tell|%s" % (type(res[1]).__name__ if res[0] == "exc" else "returned")
                    return finish("violation", "left-running", why, "%s left trial %d RUNNING (%s)" % (what, num, "raised %s" % type(res[1]).__name__ if res[0] == "exc" else "returned %s" % (res[1],)))
                clause = "wrong-state" if now[0] not in [a[1] for a in fin_alts] else "wrong-values"
                return finish("violation", clause, "tell: %s expected, %s stored|%s" % ("/".join(sorted(set(a[1] for a in fin_alts))), now[0], vkind), "%s: expected %s, trial %d is %s" % (what, fin_alts, num, now))
            if res[0] == "exc":
                if not explainable(res[1], num) and r["values"] is not None and feasibility_check_crashes(studies[0], r["values"]):
                    return finish("violation", "left-running", "unfeasible-check-crash|%s" % vkind, "%s raised %s(%s) instead of finishing trial %d" % (what, type(res[1]).__name__, str(res[1])[:100], num))
                if not explainable(res[1], num):
                    return finish("violation", "unexpected-exception", "tell: %s at %s" % (type(res[1]).__name__, _where(res[1])), "%s raised %s(%s) although the arguments are valid and nothing was injected" % (what, type(res[1]).__name__, str(res[1])[:200]))
                known = r["ret"] if known is None else min(known, r["ret"])
            if not concurrent:
                model = now
        # a finishing tell was issued -> the trial must be finished and be one of the told outcomes
        fin_all = [(r, a) for r in mine for a in r["alts"] if a[0] == "finish"]
        strict = [r for r in mine if all(a[0] == "finish" for a in r["alts"])]
        if F[0] == "RUNNING" and strict:
            r = strict[0]
            if r["values"] is not None and feasibility_check_crashes(studies[0], r["values"]):
                return finish("violation", "left-running", "unfeasible-check-crash|%s" % kind_of(r["op"].get("values")), "trial %d is RUNNING at the end although %s was issued" % (num, _op_str(r["op"])))
            return finish("violation", "left-running", "tell|concurrent", "trial %d is RUNNING at the end although %s was issued" % (num, _op_str(r["op"])))
        if F[0] != "RUNNING":
            ok = False
            for r, a in fin_all:
                if matches(F, a, s):
                    ok = True
            if not ok:
                return finish("violation", "wrong-values" if any(a[1] == F[0] for _, a in fin_all) else "wrong-state", "tell: final trial matches no told outcome|", "trial %d finally is %s; told outcomes: %s" % (num, F, [a for _, a in fin_all]))
    return finish("ok")
