"""C20 - objects read from a study are snapshots.

A history is a list of *reads* (Study.trials / get_trials / best_trial / best_trials /
user_attrs / system_attrs, storage.get_trial / get_all_trials / get_best_trial /
get_all_studies, Trial.params / Trial.user_attrs of a live Trial), *writes* (every storage
setter and the user API: ask, suggest_*, report, set_user_attr, tell, enqueue_trial,
add_trial, optimize with a callback ...) and *leak probes* (mutate a deep-copied result,
read again).  Every object a read returns is fingerprinted at read time (canonical deep
structural dump, taken inside sim.atomic()) and kept; after every later operation and at
the end all fingerprints are recomputed and must be unchanged.  Two modes: one task does
everything, or a reader and a writer thread of one process run under line pre-emption
(storage, study, trial modules and the stdlib copy module).

Signatures
  C20|<deployment>|alias-live-trial|<read kind>|<write kind>
        the changed object is a FrozenTrial that was unfinished when it was read without a
        deep copy, only its params/distributions/attrs/intermediate_values dicts changed,
        and the write went through the live optuna.trial.Trial of that very trial
        (DESIGN.md F8: Trial._cached_frozen_trial aliases the storage's own object).
        "unfinished" = RUNNING, or WAITING for an enqueued trial that study.ask() then
        claims: the claimed object still shares its dicts with the one read earlier.
        Write kinds: trial.suggest/report/set_user_attr/set_system_attr, study.ask (with
        fixed_distributions), study.optimize (the objective's suggest/report/set_user_attr).
        Such a change is accepted and the history goes on, so that any *other* change in
        the same history is still reported (and takes precedence).  Seen on the unchanged
        tree on mem, jf-sym and jr (get_trial hands out the storage's own object); not on
        rdb, cached and grpc(*), whose get_trial builds a fresh object.
  C20|<deployment>|snapshot-changed|<read kind>|<write kind>|<field>     any other change
  C20|<deployment>|copy-leak|<read kind>                                a mutated deep copy shows up in a later read
"""
from __future__ import annotations

import datetime as _dt
import enum
import hashlib
import json
import numbers
import random
from typing import Any

from checks import common
from simkit import deploy, gen, sched

ID = "C20"
LEVEL = "exploration"
BUDGET = {"quick": 50, "thorough": 900}

DEPLOYMENTS = [
    ("mem", 3.0),
    ("jf-sym", 2.0),
    ("jr", 1.5),
    ("grpc(mem)", 1.2),
    ("grpc(jf-sym)", 1.0),
    ("cached", 0.4),
    ("rdb", 0.4),
]

EVIDENCE = {
    "rule": "one case = one generated history (deployment, mode same-task or reader/writer threads, 1-6 setup writes, 8-22 reads/writes/leak probes; SQLite deployments 5-12) executed once; every object returned by a read is fingerprinted and re-fingerprinted after every later operation. Non-trivial = at least one fingerprinted object was followed by at least one later successful write and re-checked (threads mode: additionally at least one context switch); distinct = distinct digests of (deployment, operations, their results, scheduling decisions).",
    "assumptions": [
        "judged: FrozenTrial objects (single, or in lists) from Study and storage getters with and without deepcopy, Study.user_attrs/system_attrs, FrozenStudy objects of get_all_studies, Trial.params/user_attrs of a live Trial read by the task that owns the Trial; storage.get_study_user_attrs/get_study_system_attrs (live dicts on in-memory/journal) are not judged",
        "threads mode: reader and writer are two threads of one simulated process sharing the storage and Study object; all writes are issued by the writer; a live Trial object is used by one thread only",
        "pre-emption points: every seam call and every line of optuna/storages/**, optuna/study/{study,_optimize,_tell}.py, optuna/trial/_trial.py and the stdlib copy.py; switches inside C calls only at the seam boundary",
        "the leak probe mutates elements and dicts of a deep-copied result (never the length of a returned list) and looks for its markers in later reads",
        "Study.user_attrs raising 'dictionary changed size during iteration' under a concurrent set_user_attr is counted (obs_deepcopy_race), not judged",
        "exceptions of documented classes raised by reads or writes are recorded, not judged (C01/C03 judge them)",
    ],
    "components": {
        "real": "optuna Study/Trial/FrozenTrial, RandomSampler / TPESampler / NSGAIISampler with a constraints function, all storages incl. gRPC client cache and servicer, SQLAlchemy, sqlite3, protobuf, json, stdlib copy",
        "stub": "OS scheduler, threading locks, clocks, uuid, journal file system (SimFS), Redis (SimRedis), gRPC transport and server pool (SimNet)",
    },
}

MK = "c20leak"
MKF = 987654.321
MKSTEP = 424242

NODEEPCOPY_KINDS = {
    "study.get_trials(deepcopy=False)",
    "storage.get_trial",
    "storage.get_all_trials(deepcopy=False)",
    "storage.get_best_trial",
}
LIVE_WRITES = {"trial.suggest", "trial.report", "trial.set_user_attr", "trial.set_system_attr", "study.ask", "study.optimize"}
ALIAS_FIELDS = {"params", "distributions", "user_attrs", "system_attrs", "intermediate_values"}

STATE_FILTERS: list[Any] = [None, None, ["COMPLETE"], ["RUNNING"], ["WAITING"], ["COMPLETE", "PRUNED"], ["RUNNING", "WAITING"], ["COMPLETE", "FAIL", "PRUNED"]]
PARAM_NAMES = ["x", "y", "z", "c", "q"]


def deployments() -> list[tuple[str, float]]:
    import os

    only = os.environ.get("VERIF_DEPLOYMENTS")
    return [(k, w) for k, w in DEPLOYMENTS if not only or k in only.split(",")]


# ====================================================================== generation
class _Gen:
    """Keeps a rough picture of the history only to aim operations at interesting places."""

    def __init__(self, rng: random.Random, nobj: int) -> None:
        self.rng = rng
        self.nobj = nobj
        self.u = 0
        self.states: list[str] = []  # rough state per trial number
        self.live: list[int] = []  # trial number per live Trial object (index = live handle)

    def uniq(self) -> int:
        self.u += 1
        return self.u

    def val(self) -> Any:
        r = self.rng.random()
        u = self.uniq()
        if r < 0.25:
            return "v%d" % u
        if r < 0.35:
            return u
        if r < 0.45:
            return u + 0.5
        if r < 0.65:
            return [u, "s", None, [u, 2.5]]
        if r < 0.9:
            return {"k": u, "n": {"l": [1, {"d": "v%d" % u}]}}
        return None

    def key(self) -> str:
        return self.rng.choice(["a", "a", "b", "c"])

    def fval(self) -> Any:
        r = self.rng.random()
        if r < 0.06:
            return "inf"
        if r < 0.12:
            return "-inf"
        if r < 0.4:
            return float(self.rng.choice([-1, 0, 0, 1]))
        return self.uniq() + self.rng.choice([0.0, 0.5, 0.125])

    def ival(self) -> Any:
        r = self.rng.random()
        if r < 0.08:
            return "nan"
        if r < 0.14:
            return "inf"
        return self.uniq() * 1.5

    def states_filter(self) -> Any:
        return self.rng.choice(STATE_FILTERS)

    def param_values(self, k: int) -> dict:
        names = self.rng.sample(PARAM_NAMES, k)
        return {n: gen.sample_value(self.rng, gen.DISTS[n]) for n in sorted(names)}

    def template(self, states: list[str]) -> dict:
        rng = self.rng
        state = rng.choice(states)
        t: dict[str, Any] = {"state": state, "values": None, "params": self.param_values(rng.choice([0, 1, 1, 2])), "user_attrs": {}, "system_attrs": {}, "intermediate": {}}
        if state == "COMPLETE":
            t["values"] = [self.fval() for _ in range(self.nobj)]
        for _ in range(rng.choice([0, 1, 1, 2])):
            t["user_attrs"][self.key()] = self.val()
        if rng.random() < 0.3:
            t["system_attrs"][self.key()] = self.val()
        if rng.random() < 0.25 and state == "COMPLETE":
            t["system_attrs"]["constraints"] = [rng.choice([-1.0, 0.0, 1.0, 2.0])]
        if state != "WAITING":
            for _ in range(rng.choice([0, 0, 1, 2])):
                t["intermediate"][str(rng.randint(0, 3))] = self.ival()
        return t

    # ------------------------------------------------------------------ trial targets
    def _trial_number(self) -> int | None:
        if not self.states:
            return None
        unfinished = [i for i, s in enumerate(self.states) if s in ("RUNNING", "WAITING")]
        if unfinished and self.rng.random() < 0.8:
            return self.rng.choice(unfinished)
        return self.rng.randrange(len(self.states))

    def _live(self) -> int | None:
        if not self.live:
            return None
        open_ = [h for h, n in enumerate(self.live) if self.states[n] == "RUNNING"]
        if open_ and self.rng.random() < 0.9:
            return self.rng.choice(open_)
        return self.rng.randrange(len(self.live))

    # ------------------------------------------------------------------ reads
    def read(self, own_live: bool = True, deep_only: bool = False) -> dict:
        rng = self.rng
        items = [
            ("study.trials", 1.5),
            ("study.get_trials", 4.0),
            ("study.best_trial", 1.0),
            ("study.best_trials", 1.0),
            ("study.user_attrs", 1.5),
            ("study.system_attrs", 0.8),
            ("storage.get_trial", 0.0 if deep_only else 2.5),
            ("storage.get_all_trials", 3.0),
            ("storage.get_best_trial", 0.0 if deep_only else 0.8),
            ("storage.get_all_studies", 0.8),
            ("trial.params", 1.0 if own_live and self.live else 0.0),
            ("trial.user_attrs", 1.0 if own_live and self.live else 0.0),
        ]
        what = common.weighted(rng, items)
        op: dict[str, Any] = {"op": "read", "what": what}
        if what in ("study.get_trials", "storage.get_all_trials"):
            op["deepcopy"] = True if deep_only else rng.random() < 0.4
            op["states"] = self.states_filter()
        elif what == "storage.get_trial":
            n = self._trial_number()
            op["trial"] = 0 if n is None else n
        elif what in ("trial.params", "trial.user_attrs"):
            op["live"] = self._live() or 0
        return op

    def leak(self, own_live: bool = True) -> dict:
        op = self.read(own_live=own_live, deep_only=True)
        op["op"] = "leak"
        return op

    # ------------------------------------------------------------------ writes
    def write(self, force: str | None = None) -> dict:
        rng = self.rng
        have_live = bool(self.live)
        have_trials = bool(self.states)
        n_open = len([h for h, n in enumerate(self.live) if self.states[n] == "RUNNING"])
        items = [
            ("study.ask", 3.0 if n_open == 0 else (1.5 if n_open < 3 else 0.3)),
            ("trial.suggest", 3.0 if have_live else 0.0),
            ("trial.report", 2.0 if have_live else 0.0),
            ("trial.set_user_attr", 3.0 if have_live else 0.0),
            ("trial.set_system_attr", 1.0 if have_live else 0.0),
            ("study.tell", 1.5 if n_open else 0.0),
            ("study.set_user_attr", 1.5),
            ("study.set_system_attr", 0.7),
            ("study.enqueue_trial", 0.9),
            ("study.add_trial", 1.3),
            ("study.optimize", 0.7),
            ("storage.create_new_trial", 0.9),
            ("storage.set_trial_param", 1.0 if have_trials else 0.0),
            ("storage.set_trial_user_attr", 1.5 if have_trials else 0.0),
            ("storage.set_trial_system_attr", 1.0 if have_trials else 0.0),
            ("storage.set_trial_intermediate_value", 1.0 if have_trials else 0.0),
            ("storage.set_trial_state_values", 1.0 if have_trials else 0.0),
            ("storage.set_study_user_attr", 1.0),
            ("storage.set_study_system_attr", 0.7),
        ]
        what = force or common.weighted(rng, items)
        op: dict[str, Any] = {"op": "write", "what": what}
        if what == "study.ask":
            if rng.random() < 0.25:
                op["fixed"] = sorted(rng.sample(PARAM_NAMES, rng.choice([1, 2])))
            waiting = [i for i, s in enumerate(self.states) if s == "WAITING"]
            if waiting:
                n = waiting[0]
                self.states[n] = "RUNNING"
            else:
                n = len(self.states)
                self.states.append("RUNNING")
            self.live.append(n)
        elif what == "trial.suggest":
            op["live"] = self._live() or 0
            op["name"] = rng.choice(PARAM_NAMES)
        elif what == "trial.report":
            op["live"] = self._live() or 0
            op["step"] = rng.randint(0, 3)
            op["value"] = self.ival()
            if rng.random() < 0.15:
                op["io_error"] = True  # journal file deployments only
        elif what in ("trial.set_user_attr", "trial.set_system_attr"):
            op["live"] = self._live() or 0
            op["key"] = self.key()
            op["value"] = self.val()
        elif what == "study.tell":
            h = self._live() or 0
            op["live"] = h
            r = rng.random()
            if r < 0.7:
                op["values"] = [self.fval() for _ in range(self.nobj)]
                st = "COMPLETE"
            elif r < 0.85:
                op["state"] = st = "PRUNED"
            else:
                op["state"] = st = "FAIL"
            if self.live and self.states[self.live[h]] == "RUNNING":
                self.states[self.live[h]] = st
        elif what in ("study.set_user_attr", "study.set_system_attr", "storage.set_study_user_attr", "storage.set_study_system_attr"):
            op["key"] = self.key()
            op["value"] = self.val()
        elif what == "study.enqueue_trial":
            op["params"] = self.param_values(rng.choice([0, 1, 2]))
            if rng.random() < 0.4:
                op["user_attrs"] = {self.key(): self.val()}
            self.states.append("WAITING")
        elif what == "study.add_trial":
            if rng.random() < 0.2:
                op["from_read"] = rng.randint(0, 30)  # re-add an object obtained by an earlier read
                self.states.append("COMPLETE")
            else:
                op["template"] = self.template(["COMPLETE", "COMPLETE", "COMPLETE", "FAIL", "PRUNED", "WAITING"])
                self.states.append(op["template"]["state"])
        elif what == "study.optimize":
            body = []
            for _ in range(rng.randint(1, 4)):
                k = rng.choice(["suggest", "suggest", "report", "set_user_attr", "read"])
                if k == "suggest":
                    body.append({"do": "suggest", "name": rng.choice(PARAM_NAMES)})
                elif k == "report":
                    body.append({"do": "report", "step": rng.randint(0, 3), "value": self.ival()})
                elif k == "set_user_attr":
                    body.append({"do": "set_user_attr", "key": self.key(), "value": self.val()})
                else:
                    body.append({"do": "read", "deepcopy": rng.random() < 0.3})
            op["body"] = body
            r = rng.random()
            # "nan" / "none" / "count": values tell() rejects - the trial fails with a warning attr
            op["result"] = "prune" if r < 0.15 else ("fail" if r < 0.25 else (rng.choice(["nan", "none", "count"]) if r < 0.4 else [self.fval() for _ in range(self.nobj)]))
            op["callback_read"] = rng.random() < 0.7
            waiting = [i for i, s in enumerate(self.states) if s == "WAITING"]
            st = "COMPLETE" if isinstance(op["result"], list) else ("PRUNED" if op["result"] == "prune" else "FAIL")
            if waiting:
                self.states[waiting[0]] = st
            else:
                self.states.append(st)
        elif what == "storage.create_new_trial":
            if rng.random() < 0.5:
                op["template"] = self.template(["COMPLETE", "COMPLETE", "RUNNING", "WAITING", "FAIL", "PRUNED"])
                self.states.append(op["template"]["state"])
            else:
                self.states.append("RUNNING")
        elif what == "storage.set_trial_param":
            op["trial"] = self._trial_number() or 0
            name = rng.choice(PARAM_NAMES)
            op["name"] = name
            op["dist"] = gen.DISTS[name] if rng.random() < 0.93 else gen.DISTS_BAD[name]
            op["value"] = gen.sample_value(rng, op["dist"])
        elif what in ("storage.set_trial_user_attr", "storage.set_trial_system_attr"):
            op["trial"] = self._trial_number() or 0
            op["key"] = self.key()
            op["value"] = self.val()
        elif what == "storage.set_trial_intermediate_value":
            op["trial"] = self._trial_number() or 0
            op["step"] = rng.randint(0, 3)
            op["value"] = self.ival()
        elif what == "storage.set_trial_state_values":
            n = self._trial_number() or 0
            op["trial"] = n
            cur = self.states[n] if n < len(self.states) else "RUNNING"
            if cur == "WAITING" and rng.random() < 0.6:
                st = "RUNNING"
            else:
                st = rng.choice(["COMPLETE", "COMPLETE", "FAIL", "PRUNED", "RUNNING"])
            op["state"] = st
            op["values"] = [self.fval() for _ in range(self.nobj)] if st == "COMPLETE" else None
            if n < len(self.states) and cur in ("RUNNING", "WAITING") and not (st == "RUNNING" and cur == "RUNNING"):
                self.states[n] = st
        return op


def gen_plan(seed: int, run: int, tier: str) -> dict:
    rng = common.rng_for(seed, run, "work")
    kind = common.weighted(rng, deployments())
    sql = kind in ("rdb", "cached")  # SQLite: ~20 ms per call, so shorter histories
    mode = "threads" if rng.random() < (0.3 if sql else 0.38) else "same"
    nobj = 1 if rng.random() < 0.8 else 2
    big = tier != "quick"
    g = _Gen(rng, nobj)
    setup = [g.write() for _ in range(rng.randint(1, 3 if sql else 6))]
    if not g.live and rng.random() < 0.8:
        setup.append(g.write("study.ask"))
    tasks: dict[str, list] = {}
    if mode == "same":
        ops = []
        for _ in range(rng.randint(5, 12) if sql else rng.randint(8, 34 if big else 22)):
            r = rng.random()
            ops.append(g.read() if r < 0.42 else (g.write() if r < 0.9 else g.leak()))
        tasks["main"] = ops
    else:
        # the generator's picture follows the writer; reader ops only need trial numbers
        rd = []
        for _ in range(rng.randint(2, 5) if sql else rng.randint(3, 12 if big else 8)):
            rd.append(g.read(own_live=False) if rng.random() < 0.85 else g.leak(own_live=False))
        wr = []
        for _ in range(rng.randint(3, 7) if sql else rng.randint(4, 18 if big else 12)):
            r = rng.random()
            wr.append(g.write() if r < 0.72 else (g.read() if r < 0.95 else g.leak()))
        tasks["reader"] = rd
        tasks["writer"] = wr
    cfg = {
        "deployment": kind,
        "mode": mode,
        "nobj": nobj,
        "directions": [rng.choice(["minimize", "maximize"]) for _ in range(nobj)],
        "sampler_seed": rng.randrange(1 << 30),
        # a sampler with a constraints function: finishing a trial then also records the
        # constraint values (a system attribute written by the sampler's after_trial)
        "constrained": rng.choice([None, None, "tpe", "nsgaii"]),
        "p_line": rng.choice([0.01, 0.03, 0.1]) if mode == "threads" else 0.0,
        "p_seam": rng.choice([0.1, 0.3, 0.6]),
        "pool": rng.choice([1, 2, 3]),
        "snapshot_interval": rng.choice([2, 3, 100]),
        "read_block": rng.choice([64, 512, 8192]),
        "chunked_write": rng.random() < 0.2,
        "busy_timeout": 60.0,
    }
    return {"check": ID, "seed": seed, "run": run, "cfg": cfg, "setup": setup, "tasks": tasks, "sched": {"seed": rng.getrandbits(48)}}


def shrink_paths(plan: dict) -> list[tuple]:
    paths: list[tuple] = [("tasks", n) for n in sorted(plan["tasks"])]
    paths.append(("setup",))
    paths.append(("sched", "table"))
    return paths


def signature_class(sig: str) -> str:
    return "|".join(sig.split("|")[:4])


def _short(o: dict) -> str:
    bits = [o.get("op", "?"), o.get("what", "")]
    for k in ("deepcopy", "states", "trial", "live", "name", "key", "step", "state", "fixed"):
        if k in o and o[k] is not None:
            bits.append("%s=%s" % (k, o[k]))
    if "template" in o:
        bits.append("template=" + o["template"]["state"])
    if "body" in o:
        bits.append("body=[%s]" % ",".join(b["do"] for b in o["body"]))
    return " ".join(str(b) for b in bits)


def sample_view(plan: dict, res: dict) -> dict:
    return {
        "deployment": plan["cfg"]["deployment"],
        "mode": plan["cfg"]["mode"],
        "setup": [_short(o) for o in plan["setup"]],
        "tasks": {n: [_short(o) for o in ops] for n, ops in plan["tasks"].items()},
        "switches": res["switches"],
        "status": res["status"],
    }


# ====================================================================== fingerprints
def _canon(x: Any) -> str:
    """Canonical deep structural dump (NaN-safe, independent of dict order)."""
    if x is None or isinstance(x, (bool, str)):
        return repr(x)
    if isinstance(x, enum.Enum):
        return type(x).__name__ + "." + x.name
    if isinstance(x, numbers.Integral):
        return repr(int(x))
    if isinstance(x, numbers.Real):
        return "f" + repr(float(x))
    if isinstance(x, dict):
        return "{" + ",".join(sorted(_canon(k) + ":" + _canon(v) for k, v in x.items())) + "}"
    if isinstance(x, (list, tuple)):
        return ("[" if isinstance(x, list) else "(") + ",".join(_canon(v) for v in x) + "]"
    if isinstance(x, _dt.datetime):
        return "dt" + x.isoformat()
    flat = _fields(x)
    if flat is not None:
        return type(x).__name__ + "<" + ",".join("%s=%s" % kv for kv in flat) + ">"
    from optuna.distributions import BaseDistribution, distribution_to_json

    if isinstance(x, BaseDistribution):
        return "dist" + distribution_to_json(x)
    raise TypeError("C20 fingerprint: unsupported object of type %s" % type(x).__name__)


def _fields(x: Any) -> list[tuple[str, str]] | None:
    from optuna.study._frozen import FrozenStudy
    from optuna.trial import FrozenTrial

    if isinstance(x, FrozenTrial):
        d = x.__dict__
        return [
            ("number", _canon(d["_number"])),
            ("state", _canon(d["state"])),
            ("values", _canon(d["_values"])),
            ("datetime_start", _canon(d["_datetime_start"])),
            ("datetime_complete", _canon(d["datetime_complete"])),
            ("params", _canon(d["_params"])),
            ("distributions", _canon(d["_distributions"])),
            ("user_attrs", _canon(d["_user_attrs"])),
            ("system_attrs", _canon(d["_system_attrs"])),
            ("intermediate_values", _canon(d["intermediate_values"])),
            ("trial_id", _canon(d["_trial_id"])),
        ]
    if isinstance(x, FrozenStudy):
        return [
            ("study_name", _canon(x.study_name)),
            ("directions", _canon(x._directions)),
            ("user_attrs", _canon(x.user_attrs)),
            ("system_attrs", _canon(x.system_attrs)),
            ("study_id", _canon(x._study_id)),
        ]
    return None


def _flat(x: Any) -> dict[str, str]:
    """Fingerprint as a flat dict  '<element index>/<field>' -> canonical string."""
    f = _fields(x)
    if f is not None:
        return {"/" + k: v for k, v in f}
    if isinstance(x, (list, tuple)):
        out = {"/len": repr(len(x))}
        for i, e in enumerate(x):
            fe = _fields(e)
            if fe is None:
                out["%d/item" % i] = _canon(e)
            else:
                for k, v in fe:
                    out["%d/%s" % (i, k)] = v
        return out
    if isinstance(x, dict):
        out = {"/keys": _canon(sorted(repr(k) for k in x))}
        for k, v in x.items():
            out["/value:" + repr(k)] = _canon(v)
        return out
    return {"/value": _canon(x)}


def _find_marker(x: Any, path: str) -> str | None:
    """Structural search for what the leak probe writes into a deep copy (exact marker string
    as key/element, exact marker float, exact marker step) - never a substring search."""
    if isinstance(x, str):
        return path if x == MK else None
    if isinstance(x, bool) or x is None:
        return None
    if isinstance(x, numbers.Real):
        return path if (x == MKF or x == MKSTEP) else None
    if isinstance(x, dict):
        for k, v in x.items():
            r = _find_marker(k, path + "/<key>") or _find_marker(v, "%s/%r" % (path, k))
            if r is not None:
                return r
        return None
    if isinstance(x, (list, tuple)):
        for i, v in enumerate(x):
            r = _find_marker(v, "%s[%d]" % (path, i))
            if r is not None:
                return r
        return None
    d = getattr(x, "__dict__", None)
    if d is not None and _fields(x) is not None:
        return _find_marker({k: v for k, v in d.items() if k not in ("_number", "_trial_id", "_study_id")}, path + "." + type(x).__name__)
    return None


def _quick(x: Any) -> str:
    """Cheap complete dump (C-level repr of the attribute dicts); only when it differs is the
    canonical fingerprint recomputed and compared."""
    if isinstance(x, (list, tuple)):
        return repr([getattr(e, "__dict__", e) for e in x])
    return repr(getattr(x, "__dict__", x))


def _h(flat: dict[str, str]) -> str:
    m = hashlib.blake2b(digest_size=8)
    for k in sorted(flat):
        m.update(k.encode())
        m.update(b"=")
        m.update(flat[k].encode())
        m.update(b";")
    return m.hexdigest()


def _f(v: Any) -> float:
    return float(v)


def _fresh(v: Any) -> Any:
    return json.loads(json.dumps(v))


# ====================================================================== execution
class _Stop(Exception):
    """A non-F8 violation was found: stop the history."""


def _tolerated() -> tuple:
    import grpc
    from optuna.exceptions import DuplicatedStudyError, StorageInternalError, UpdateFinishedTrialError

    return (KeyError, ValueError, RuntimeError, UpdateFinishedTrialError, DuplicatedStudyError, StorageInternalError, grpc.RpcError)


def _constraints(trial: Any) -> tuple:
    return (1.0,) if trial.number % 2 else (-1.0, 0.0)[:1]


def _make_sampler(cfg: dict) -> Any:
    import optuna

    k = cfg.get("constrained")
    if k == "tpe":
        return optuna.samplers.TPESampler(seed=cfg["sampler_seed"] % (1 << 30), constraints_func=_constraints)
    if k == "nsgaii":
        return optuna.samplers.NSGAIISampler(seed=cfg["sampler_seed"] % (1 << 30), constraints_func=_constraints, population_size=4)
    return optuna.samplers.RandomSampler(seed=cfg["sampler_seed"])


class _Run:
    def __init__(self, plan: dict, sim: sched.Sim, dep: deploy.Deployment) -> None:
        self.plan = plan
        self.cfg = plan["cfg"]
        self.kind = self.cfg["deployment"]
        self.sim = sim
        self.dep = dep
        self.prefix = "%s|%s|" % (ID, self.kind)
        self.st: Any = None
        self.study: Any = None
        self.sid: int = -1
        self.registry: list[dict] = []
        self.live: list[Any] = []
        self.ntrials = 0
        self.last_write: dict = {"what": "none", "number": None, "seq": 0}
        self.nwrites_ok = 0
        self.alias: list[tuple[str, str]] = []  # accepted F8-pattern changes (signature, detail)
        self.verdict: tuple[str, str] | None = None
        self.rechecked_after_write = 0
        self.tolerated = _tolerated()
        self.trace: list[str] = []

    # ------------------------------------------------------------------ oracle
    def register(self, obj: Any, kind: str, task: str) -> None:
        with self.sim.atomic():
            flat = _flat(obj)
            self.registry.append({"obj": obj, "fp": flat, "quick": _quick(obj), "kind": kind, "task": task, "at_write": self.nwrites_ok, "n": len(self.trace)})
            self.sim.count("objects_fingerprinted")
            self.sim.note("read", task, kind, _h(flat))

    def recheck(self, where: str) -> None:
        with self.sim.atomic():
            lw = self.last_write
            for ei, e in enumerate(self.registry):
                q = _quick(e["obj"])
                if q == e["quick"]:
                    continue
                new = _flat(e["obj"])
                old = e["fp"]
                e["quick"] = q
                if new == old:
                    continue
                keys = sorted(k for k in set(new) | set(old) if new.get(k) != old.get(k))
                bad_field = None
                for k in keys:
                    idx, field = k.split("/", 1)
                    field = field.split(":", 1)[0]
                    if not self._is_alias(e, old, idx, field, lw):
                        bad_field = (k, field)
                        break
                detail = "object #%d from %s (read by %s before op %d) changed, noticed %s; last write: %s (trial number %s)\n" % (ei, e["kind"], e["task"], e["n"], where, lw["what"], lw["number"])
                detail += "\n".join("  %s: %s  ->  %s" % (k, (old.get(k) or "<absent>")[:200], (new.get(k) or "<absent>")[:200]) for k in keys[:6])
                detail += "\n  history:\n    " + "\n    ".join(self.trace[-14:])
                if bad_field is None:
                    self.alias.append((self.prefix + "alias-live-trial|%s|%s" % (e["kind"], lw["what"]), detail))
                    self.sim.count("alias_live_trial_change")
                    e["fp"] = new  # accepted: keep looking for anything else
                    continue
                self.sim.note("violation", e["kind"], lw["what"], bad_field[1])
                self.verdict = (self.prefix + "snapshot-changed|%s|%s|%s" % (e["kind"], lw["what"], bad_field[1]), detail)
                raise _Stop()

    def _is_alias(self, e: dict, old: dict, idx: str, field: str, lw: dict) -> bool:
        """DESIGN.md F8 and nothing else."""
        if e["kind"] not in NODEEPCOPY_KINDS or field not in ALIAS_FIELDS or lw["what"] not in LIVE_WRITES:
            return False
        state = old.get(idx + "/state")
        number = old.get(idx + "/number")
        if state not in ("TrialState.RUNNING", "TrialState.WAITING") or number is None:
            return False
        return lw["number"] is None or repr(lw["number"]) == number

    def leak_check(self, obj: Any, kind: str, via: str) -> None:
        with self.sim.atomic():
            where = _find_marker(obj, "")
            if where is not None:
                s = _canon(obj)
                self.verdict = (self.prefix + "copy-leak|%s" % kind, "after mutating the result of %s, a later %s shows the mutation at %s: %s\n  history:\n    %s" % (kind, via, where, s[:600], "\n    ".join(self.trace[-10:])))
                self.sim.note("violation-leak", kind, via)
                raise _Stop()

    # ------------------------------------------------------------------ helpers
    def _states(self, f: Any) -> Any:
        from optuna.trial import TrialState

        return None if f is None else tuple(TrialState[s] for s in f)

    def _live(self, h: int) -> Any:
        return self.live[h % len(self.live)] if self.live else None

    def _tid(self, n: int) -> int | None:
        if self.ntrials <= 0:
            return None
        try:
            return self.st.get_trial_id_from_study_id_trial_number(self.sid, n % self.ntrials)
        except self.tolerated:
            return None

    def _dist(self, name: str) -> Any:
        from optuna.distributions import json_to_distribution

        return json_to_distribution(gen.DISTS[name])

    def _suggest(self, trial: Any, name: str) -> Any:
        if name == "x":
            return trial.suggest_float("x", 0.0, 1.0)
        if name == "y":
            return trial.suggest_float("y", 1e-05, 100.0, log=True)
        if name == "z":
            return trial.suggest_int("z", -4, 10, step=2)
        if name == "c":
            return trial.suggest_categorical("c", ["a", "b", None, 2.5])
        return trial.suggest_float("q", -1.0, 1.0, step=0.25)

    def _template(self, t: dict) -> Any:
        from optuna.trial import FrozenTrial, TrialState

        state = TrialState[t["state"]]
        now = _dt.datetime.fromtimestamp(self.sim.now)
        return FrozenTrial(
            number=-1,
            trial_id=-1,
            state=state,
            value=None,
            values=None if t["values"] is None else [_f(v) for v in t["values"]],
            datetime_start=None if state == TrialState.WAITING else now,
            datetime_complete=now if state.is_finished() else None,
            params={k: _fresh(v) for k, v in t["params"].items()},
            distributions={k: self._dist(k) for k in t["params"]},
            user_attrs=_fresh(t["user_attrs"]),
            system_attrs=_fresh(t["system_attrs"]),
            intermediate_values={int(k): _f(v) for k, v in t["intermediate"].items()},
        )

    # ------------------------------------------------------------------ reads
    def do_read(self, op: dict, task: str) -> tuple[str, Any] | None:
        """Returns (read kind, object) or None when nothing was returned."""
        what = op["what"]
        st, study = self.st, self.study
        kind = what
        try:
            if what == "study.trials":
                r = study.trials
            elif what == "study.get_trials":
                kind = "study.get_trials(deepcopy=%s)" % bool(op.get("deepcopy"))
                r = study.get_trials(deepcopy=bool(op.get("deepcopy")), states=self._states(op.get("states")))
            elif what == "study.best_trial":
                r = study.best_trial
            elif what == "study.best_trials":
                r = study.best_trials
            elif what == "study.user_attrs":
                r = study.user_attrs
            elif what == "study.system_attrs":
                r = study.system_attrs
            elif what == "storage.get_trial":
                tid = self._tid(op.get("trial", 0))
                if tid is None:
                    return None
                r = st.get_trial(tid)
            elif what == "storage.get_all_trials":
                kind = "storage.get_all_trials(deepcopy=%s)" % bool(op.get("deepcopy"))
                r = st.get_all_trials(self.sid, deepcopy=bool(op.get("deepcopy")), states=self._states(op.get("states")))
            elif what == "storage.get_best_trial":
                r = st.get_best_trial(self.sid)
            elif what == "storage.get_all_studies":
                r = st.get_all_studies()
            elif what == "trial.params":
                t = self._live(op.get("live", 0))
                if t is None:
                    return None
                r = t.params
            elif what == "trial.user_attrs":
                t = self._live(op.get("live", 0))
                if t is None:
                    return None
                r = t.user_attrs
            else:
                raise AssertionError("unknown read " + what)
        except self.tolerated as e:
            msg = str(e)
            if isinstance(e, RuntimeError) and "changed size during iteration" in msg:
                self.sim.count("obs_deepcopy_race")
                self.sim.count("obs_deepcopy_race:" + what)
            self.sim.count("exc:" + type(e).__name__)
            self.sim.note("read-exc", task, what, type(e).__name__)
            self.trace.append("%s read %s -> raise %s" % (task, kind, type(e).__name__))
            return None
        self.trace.append("%s read %s" % (task, kind))
        return kind, r

    # ------------------------------------------------------------------ leak probe
    def _mutate(self, obj: Any) -> None:
        from optuna.distributions import FloatDistribution
        from optuna.study._frozen import FrozenStudy
        from optuna.trial import FrozenTrial

        def deep(d: dict) -> None:
            for v in list(d.values()):
                if isinstance(v, list):
                    v.append(MK)
                elif isinstance(v, dict):
                    v[MK] = 1
            d[MK] = "x"

        if isinstance(obj, FrozenTrial):
            obj.params[MK] = 1
            obj.distributions[MK] = FloatDistribution(0.0, 1.0)
            deep(obj.user_attrs)
            deep(obj._system_attrs)
            obj.intermediate_values[MKSTEP] = MKF
            if obj._values:
                obj._values[0] = MKF
        elif isinstance(obj, FrozenStudy):
            deep(obj.user_attrs)
            deep(obj.system_attrs)
        elif isinstance(obj, list):
            for e in obj:
                self._mutate(e)
        elif isinstance(obj, dict):
            deep(obj)

    def do_leak(self, op: dict, task: str) -> None:
        got = self.do_read(op, task)
        if got is None:
            return
        kind, obj = got
        with self.sim.atomic():
            self._mutate(obj)
            self.sim.count("leak_probe")
        self.trace.append("%s mutated the result of %s" % (task, kind))
        again = self.do_read(op, task)
        if again is not None:
            self.leak_check(again[1], kind, "read through the same call")
            self.register(again[1], again[0], task)
        if op["what"].startswith("trial."):
            other = {"op": "read", "what": "study.get_trials", "deepcopy": False, "states": None}
        elif op["what"] in ("study.user_attrs", "study.system_attrs", "storage.get_all_studies"):
            other = {"op": "read", "what": "storage.get_all_studies"}
        else:
            other = {"op": "read", "what": "storage.get_all_trials", "deepcopy": False, "states": None}
        g2 = self.do_read(other, task)
        if g2 is not None:
            self.leak_check(g2[1], kind, g2[0])
            self.register(g2[1], g2[0], task)

    # ------------------------------------------------------------------ writes
    def _begin_write(self, what: str, number: Any) -> None:
        self.last_write = {"what": what, "number": number, "seq": self.last_write["seq"] + 1}

    def do_write(self, op: dict, task: str) -> None:
        from optuna.trial import TrialState

        what = op["what"]
        st, study = self.st, self.study
        ok = False
        desc = what
        try:
            if what == "study.ask":
                self._begin_write(what, None)
                fixed = {n: self._dist(n) for n in op.get("fixed", [])} or None
                t = study.ask(fixed_distributions=fixed)
                self.live.append(t)
                self.ntrials = max(self.ntrials, t.number + 1)
                self.last_write["number"] = t.number
                desc = "study.ask(fixed=%s) -> trial %d" % (op.get("fixed"), t.number)
            elif what.startswith("trial."):
                t = self._live(op.get("live", 0))
                if t is None:
                    return
                self._begin_write(what, t.number)
                desc = "%s on live trial %d" % (what, t.number)
                if what == "trial.suggest":
                    self._suggest(t, op["name"])
                elif what == "trial.report":
                    fs_ = self.dep.fs if self.kind.startswith("jf") else None
                    if op.get("io_error") and fs_ is not None:
                        # the journal's fsync reports EIO once (the record has reached the file):
                        # report() raises OSError; the objective carries on with the same Trial
                        fired = [False]

                        def _eio(task_: Any, op_: str) -> Any:
                            if op_ == "fsync" and not fired[0]:
                                fired[0] = True
                                return 5
                            return None

                        prev = fs_.io_fault
                        fs_.io_fault = _eio
                        try:
                            try:
                                t.report(_f(op["value"]), op["step"])
                            except OSError:
                                self.sim.count("fault:report_io_error")
                        finally:
                            fs_.io_fault = prev
                    else:
                        t.report(_f(op["value"]), op["step"])
                elif what == "trial.set_user_attr":
                    t.set_user_attr(op["key"], _fresh(op["value"]))
                else:
                    t.set_system_attr(op["key"], _fresh(op["value"]))
            elif what == "study.tell":
                t = self._live(op.get("live", 0))
                if t is None:
                    return
                self._begin_write(what, t.number)
                desc = "study.tell(trial %d)" % t.number
                if "values" in op:
                    vals = [_f(v) for v in op["values"]]
                    ft = study.tell(t, vals[0] if len(vals) == 1 else vals)
                else:
                    ft = study.tell(t, state=TrialState[op["state"]])
                self.register(ft, "study.tell", task)
            elif what == "study.set_user_attr":
                self._begin_write(what, None)
                study.set_user_attr(op["key"], _fresh(op["value"]))
            elif what == "study.set_system_attr":
                self._begin_write(what, None)
                study.set_system_attr(op["key"], _fresh(op["value"]))
            elif what == "study.enqueue_trial":
                self._begin_write(what, None)
                study.enqueue_trial(_fresh(op["params"]), user_attrs=_fresh(op.get("user_attrs")))
                self.ntrials += 1
            elif what == "study.add_trial":
                self._begin_write(what, None)
                if "from_read" in op:
                    src = self._frozen_from_registry(op["from_read"])
                    if src is None:
                        return
                    desc = "study.add_trial(<trial %d obtained by an earlier read>)" % src.number
                    study.add_trial(src)
                else:
                    study.add_trial(self._template(op["template"]))
                self.ntrials += 1
            elif what == "study.optimize":
                self._begin_write(what, None)
                self._optimize(op, task)
            elif what == "storage.create_new_trial":
                self._begin_write(what, None)
                tmpl = self._template(op["template"]) if "template" in op else None
                st.create_new_trial(self.sid, tmpl)
                self.ntrials += 1
            elif what in ("storage.set_study_user_attr", "storage.set_study_system_attr"):
                self._begin_write(what, None)
                getattr(st, what.split(".", 1)[1])(self.sid, op["key"], _fresh(op["value"]))
            elif what.startswith("storage.set_trial_"):
                tid = self._tid(op.get("trial", 0))
                if tid is None:
                    return
                self._begin_write(what, None)
                desc = "%s(trial_id=%d)" % (what, tid)
                if what == "storage.set_trial_param":
                    from optuna.distributions import json_to_distribution

                    d = json_to_distribution(op["dist"])
                    st.set_trial_param(tid, op["name"], d.to_internal_repr(op["value"]), d)
                elif what == "storage.set_trial_user_attr":
                    st.set_trial_user_attr(tid, op["key"], _fresh(op["value"]))
                elif what == "storage.set_trial_system_attr":
                    st.set_trial_system_attr(tid, op["key"], _fresh(op["value"]))
                elif what == "storage.set_trial_intermediate_value":
                    st.set_trial_intermediate_value(tid, op["step"], _f(op["value"]))
                else:
                    vals = None if op.get("values") is None else [_f(v) for v in op["values"]]
                    st.set_trial_state_values(tid, TrialState[op["state"]], vals)
                    desc += " %s" % op["state"]
            else:
                raise AssertionError("unknown write " + what)
            ok = True
        except self.tolerated as e:
            self.sim.count("exc:" + type(e).__name__)
            self.sim.note("write-exc", task, what, type(e).__name__)
            desc += " -> raise " + type(e).__name__
        if ok:
            self.nwrites_ok += 1
            self.sim.count("writes_ok")
            self.sim.note("write", task, what)
        self.trace.append("%s %s" % (task, desc))

    def _frozen_from_registry(self, k: int) -> Any:
        from optuna.trial import FrozenTrial

        with self.sim.atomic():
            cands = []
            for e in self.registry:
                o = e["obj"]
                if isinstance(o, FrozenTrial):
                    cands.append(o)
                elif isinstance(o, list):
                    cands.extend(x for x in o if isinstance(x, FrozenTrial))
            cands = [c for c in cands if c.state.is_finished()]
            return cands[k % len(cands)] if cands else None

    def _optimize(self, op: dict, task: str) -> None:
        import optuna

        me = self

        def objective(trial: Any) -> Any:
            me.ntrials = max(me.ntrials, trial.number + 1)
            me.last_write = {"what": "study.optimize", "number": trial.number, "seq": me.last_write["seq"] + 1}
            for b in op["body"]:
                if b["do"] == "read":
                    r = me.study.get_trials(deepcopy=bool(b["deepcopy"]))
                    me.register(r, "study.get_trials(deepcopy=%s)" % bool(b["deepcopy"]), task)
                    continue
                try:
                    if b["do"] == "suggest":
                        me._suggest(trial, b["name"])
                    elif b["do"] == "report":
                        trial.report(_f(b["value"]), b["step"])
                    else:
                        trial.set_user_attr(b["key"], _fresh(b["value"]))
                    me.nwrites_ok += 1
                except me.tolerated as e:
                    me.sim.count("exc:" + type(e).__name__)
                me.trace.append("%s   objective(trial %d): %s" % (task, trial.number, b["do"]))
                me.recheck("inside the objective of study.optimize after %s" % b["do"])
            res = op["result"]
            if res == "prune":
                raise optuna.TrialPruned()
            if res == "fail":
                raise ValueError("objective failed")
            if res == "nan":
                me.sim.count("objective_returned_invalid_value")
                return float("nan")
            if res == "none":
                me.sim.count("objective_returned_invalid_value")
                return None
            if res == "count":
                me.sim.count("objective_returned_invalid_value")
                return [0.5] * (len(me.study.directions) + 1)
            vals = [_f(v) for v in res]
            return vals[0] if len(vals) == 1 else vals

        def callback(study: Any, ft: Any) -> None:
            me.register(ft, "optimize.callback_trial", task)
            if op.get("callback_read"):
                me.register(study.get_trials(deepcopy=False), "study.get_trials(deepcopy=False)", task)

        self.study.optimize(objective, n_trials=1, catch=(ValueError,), callbacks=[callback])

    # ------------------------------------------------------------------ task bodies
    def run_ops(self, ops: list, task: str) -> None:
        sim = self.sim
        try:
            for i, op in enumerate(ops):
                if self.verdict is not None:
                    return
                sim.seam("step")
                if self.verdict is not None:
                    return
                try:
                    k = op.get("op")
                    if k == "read":
                        got = self.do_read(op, task)
                        if got is not None:
                            self.register(got[1], got[0], task)
                    elif k == "leak":
                        self.do_leak(op, task)
                    elif k == "write":
                        self.do_write(op, task)
                    else:
                        raise AssertionError("unknown op %r" % (k,))
                except (_Stop, sched.SimKilled):
                    raise
                except Exception:
                    # corrupted internal state (e.g. after a leaked mutation) may surface as any
                    # exception: judge the snapshots first, otherwise it is a harness problem
                    self.recheck("after an unexpected exception in %s" % _short(op))
                    raise
                self.recheck("after %s by %s" % (_short(op), task))
                if k == "write":
                    self.rechecked_after_write += 1
        except _Stop:
            return
        finally:
            try:
                if self.st is not None and hasattr(self.st, "remove_session"):
                    self.st.remove_session()
            except Exception:
                pass

    def create_study(self) -> None:
        """Harness thread, before the first task: not traced, never yields.  (create_study is
        kept out of the traced tasks on purpose: the number of line events of the list
        comprehension in optuna.create_study differs between the first and the later
        executions in one interpreter, which would make schedules depend on process history.)"""
        import optuna

        cfg = self.cfg
        self.study = optuna.create_study(
            storage=self.st,
            study_name="c20",
            directions=list(cfg["directions"]),
            sampler=_make_sampler(cfg),
        )
        self.sid = self.study._study_id
        if hasattr(self.st, "remove_session"):
            self.st.remove_session()

    def setup(self) -> None:
        self.run_ops(self.plan["setup"], "setup")


def run_plan(plan: dict) -> dict:
    cfg = plan["cfg"]
    kind = cfg["deployment"]
    threads = cfg["mode"] == "threads"
    ch = common.make_chooser(plan)
    trace = common.TRACE_STORAGE + common.TRACE_STUDY + ("/copy.py",) if threads else ()
    sim = sched.Sim(ch, trace_suffixes=trace, max_steps=120000, uuid_salt=str(plan.get("run", 0)))
    dep = deploy.Deployment(sim, kind, cfg)
    try:
        return _run(plan, sim, ch, dep)
    finally:
        dep.close()


def _run(plan: dict, sim: sched.Sim, ch: sched.Chooser, dep: deploy.Deployment) -> dict:
    r = _Run(plan, sim, dep)
    proc = sim.proc("P0")
    r.st = dep.client(proc)
    r.create_study()
    tasks = [sim.spawn(proc, "setup", r.setup)]
    status = sim.run()
    if status == "ok" and tasks[0].exc is None and r.verdict is None:
        for name in sorted(plan["tasks"]):
            ops = plan["tasks"][name]
            tasks.append(sim.spawn(proc, name, (lambda o=ops, n=name: r.run_ops(o, n))))
        status = sim.run()
    if status == "stepcap":
        return common.result(sim, ch, "inconclusive", None, "step cap", nontrivial=False)
    if status == "deadlock":
        raise RuntimeError("C20: unexpected deadlock: " + "; ".join("%s blocked on %s" % (t.name, t.blocked_why) for t in tasks if not t.done))
    for t in tasks:
        if t.exc is not None and r.verdict is None:
            raise RuntimeError("task %s died: %r\n  history:\n    %s" % (t.name, t.exc, "\n    ".join(r.trace[-12:]))) from t.exc
    if r.verdict is None:
        try:
            r.recheck("at the end of the history")
        except _Stop:
            pass
    followed = any(e["at_write"] < r.nwrites_ok for e in r.registry)
    nontrivial = followed and r.rechecked_after_write > 0 and (sim.switches > 0 or plan["cfg"]["mode"] == "same")
    extra = {"mode_" + plan["cfg"]["mode"]: 1, "objects_followed_by_write": sum(1 for e in r.registry if e["at_write"] < r.nwrites_ok)}
    sim.note("end", len(r.registry), r.nwrites_ok, len(r.alias), r.verdict[0] if r.verdict else None)
    if r.verdict is not None:
        return common.result(sim, ch, "violation", r.verdict[0], r.verdict[1], nontrivial=nontrivial, extra_counters=extra)
    if r.alias:
        return common.result(sim, ch, "violation", r.alias[0][0], r.alias[0][1], nontrivial=nontrivial, extra_counters=extra)
    return common.result(sim, ch, "ok", nontrivial=nontrivial, extra_counters=extra)
