"""C04 - a queued trial is handed to exactly one worker, with its fixed parameters.

Producers put K<=5 trials with pairwise distinct fixed parameters and user attributes in
the queue (enqueue_trial / add_trial(WAITING)); W<=3 consumers (threads sharing one Study,
threads with their own Study, separate processes, gRPC clients) loop
ask() -> suggest_* -> tell() while the producers are still enqueuing, under pre-emption at
every source line of study.py and the storage layer.  Afterwards every consumer asks once
more and a sequential drain asks until it receives a trial that was not enqueued.

Oracle: no trial number is returned by two ask() calls; after the drain no enqueued trial
is still WAITING and every enqueued trial was returned exactly once; the consumer that got
it received the enqueued values verbatim from the matching suggest calls, and number,
user attributes and stored params are the enqueued ones.
"""
from __future__ import annotations

import json
from typing import Any

from checks import common
from simkit import deploy, sched, seams

ID = "C04"
LEVEL = "exploration"
BUDGET = {"quick": 50, "thorough": 900}
DEPLOYMENTS = [
    ("mem", 3.0),
    ("jf-sym", 2.0),
    ("jf-open", 1.0),
    ("jr", 2.0),
    ("jr-cluster", 1.0),
    ("rdb", 0.5),
    ("cached", 0.5),
    ("grpc(mem)", 1.5),
    ("grpc(jf-sym)", 1.0),
    ("grpc(jr)", 1.0),
    ("grpc(rdb)", 0.25),
    ("grpc(cached)", 0.25),
]

EVIDENCE = {
    "rule": "one case = one simulated execution of producers and 1-3 consumers on one drawn deployment plus the drain phase; non-trivial = at least 2 enqueued trials, at least 2 consumers and at least one context switch inside ask()/enqueue; distinct = distinct event-order digests.",
    "assumptions": [
        "pre-emption points: every source line of optuna/study/study.py, optuna/trial/_trial.py and optuna/storages/**, every seam call",
        "ask() raising UpdateFinishedTrialError because the listed WAITING trial was claimed *and finished* by another worker before the compare-and-set is counted as an observation (not claimed twice, not skipped)",
        "SQLite stands in for every RDB; MySQL/PostgreSQL row locks are not simulated",
    ],
    "components": {"real": "Study.ask/tell/enqueue_trial/add_trial, Trial.suggest_*, all storages incl. gRPC proxy/servicer", "stub": "OS scheduler, locks, clocks, uuid, journal file system, Redis, gRPC transport and server pool"},
}


def deployments() -> list[tuple[str, float]]:
    import os

    only = os.environ.get("VERIF_DEPLOYMENTS")
    return [(k, w) for k, w in DEPLOYMENTS if not only or k in only.split(",")]


def gen_plan(seed: int, run: int, tier: str) -> dict:
    rng = common.rng_for(seed, run, "work")
    kind = common.weighted(rng, deployments())
    nq = rng.randint(1, 5) if tier == "quick" else rng.randint(2, 8)
    queue = []
    for k in range(nq):
        queue.append({"qid": k, "x": round(0.05 + 0.9 * (k + 1) / (nq + 1) + rng.random() * 0.01, 6), "c": rng.choice(["a", "b", "c"]), "i": rng.randint(0, 10), "how": rng.choice(["enqueue", "enqueue", "add"]), "partial": rng.random() < 0.25})
    ncons = rng.choice([1, 2, 2, 3, 3])
    nprod = rng.choice([1, 1, 2])
    # who is where
    if kind == "mem":
        layout = "threads"
    else:
        layout = rng.choice(["threads", "procs", "procs", "mixed"])
    tasks: dict[str, dict] = {}
    for p in range(nprod):
        mine = [q["qid"] for q in queue if q["qid"] % nprod == p]
        tasks["p%d" % p] = {"role": "producer", "proc": "P0" if layout == "threads" else "PP%d" % p, "ops": [{"op": "enqueue", "qid": k} for k in mine]}
    share_study = rng.random() < 0.5
    for c in range(ncons):
        proc = "P0" if layout == "threads" else ("PC%d" % c if layout == "procs" else "PC%d" % min(c, 1))
        ops = []
        for _ in range(rng.randint(1, 4)):
            ops.append({"op": "ask_tell", "hold": rng.random() < 0.2, "state": rng.choice(["COMPLETE", "COMPLETE", "FAIL", "PRUNED"])})
        tasks["c%d" % c] = {"role": "consumer", "proc": proc, "ops": ops}
    # pre-enqueued trials (before any consumer starts)
    pre = [q["qid"] for q in queue if rng.random() < 0.3]
    for t in tasks.values():
        if t["role"] == "producer":
            t["ops"] = [o for o in t["ops"] if o["qid"] not in pre]
    cfg = {
        "deployment": kind,
        "p_line": rng.choice([0.01, 0.03, 0.1]),
        "p_seam": rng.choice([0.1, 0.3, 0.6]),
        "read_block": rng.choice([64, 8192]),
        "chunked_write": rng.random() < 0.2,
        "grace_period": 30,
        "busy_timeout": 60.0,
        "pool": rng.choice([1, 2, 3, 10]),
        "snapshot_interval": rng.choice([2, 5, 100]),
        "share_study": share_study,
        "reuse_dicts": rng.random() < 0.4,
        "pickled_clients": rng.random() < 0.3,
        "redis_stalls": ([{"nth": rng.randint(0, 8), "dur": rng.choice([0.5, 15.0, 40.0])} for _ in range(rng.randint(1, 2))] if "jr" in kind and rng.random() < 0.35 else []),
    }
    # disk errors (journal file deployments): an fsync reports EIO although the record is
    # already in the file - the call fails, its effect is ambiguous
    if kind.startswith("jf") and rng.random() < 0.25:
        names_all = sorted(tasks)
        cfg["io_faults"] = [{"task": rng.choice(names_all), "nth": rng.randint(0, 8)} for _ in range(rng.randint(1, 2))]
    return {"check": ID, "seed": seed, "run": run, "cfg": cfg, "queue": queue, "pre": pre, "tasks": tasks, "sched": {"seed": rng.getrandbits(48)}}


def shrink_paths(plan: dict) -> list[tuple]:
    return [("tasks", n, "ops") for n in plan["tasks"]] + [("pre",), ("sched", "table")]


def signature_class(sig: str) -> str:
    return "|".join(sig.split("|")[:4])


def sample_view(plan: dict, res: dict) -> dict:
    return {"deployment": plan["cfg"]["deployment"], "queue": plan["queue"], "pre": plan["pre"], "tasks": {n: {"proc": t["proc"], "role": t["role"], "ops": len(t["ops"])} for n, t in plan["tasks"].items()}, "switches": res["switches"]}


def run_plan(plan: dict) -> dict:
    cfg = plan["cfg"]
    ch = common.make_chooser(plan)
    sim = sched.Sim(ch, trace_suffixes=common.TRACE_STORAGE + ("optuna/study/study.py", "optuna/trial/_trial.py"), max_steps=150000, uuid_salt=str(plan.get("run", 0)))
    dep = deploy.Deployment(sim, cfg["deployment"], cfg)
    try:
        return _run(plan, sim, ch, dep)
    finally:
        dep.close()


def _run(plan: dict, sim: sched.Sim, ch: sched.Chooser, dep: deploy.Deployment) -> dict:
    import optuna
    from optuna.distributions import CategoricalDistribution, FloatDistribution, IntDistribution
    from optuna.exceptions import UpdateFinishedTrialError
    from optuna.trial import TrialState, create_trial

    cfg = plan["cfg"]
    kind = cfg["deployment"]
    layout = "threads" if len({t["proc"] for t in plan["tasks"].values()}) == 1 else "procs"
    prefix = "%s|%s|%s|" % (ID, kind, layout)
    queue = {q["qid"]: q for q in plan["queue"]}
    procs: dict[str, Any] = {}
    for n, t in sorted(plan["tasks"].items()):
        if t["proc"] not in procs:
            procs[t["proc"]] = sim.proc(t["proc"])
    boot = sim.proc("BOOT")
    st0 = dep.client(boot)
    study0 = optuna.create_study(storage=st0, study_name="q", sampler=optuna.samplers.RandomSampler(seed=1))

    def params_of(q: dict) -> dict:
        p = {"x": q["x"], "c": q["c"]}
        if not q.get("partial"):
            p["i"] = q["i"]
        return p

    reuse = cfg.get("reuse_dicts", False)
    per_caller: dict[str, tuple[dict, dict]] = {}

    def enqueue(study: Any, q: dict) -> None:
        me = sim.cur.name if sim.in_task() else "harness"
        shared_params, shared_attrs = per_caller.setdefault(me, ({}, {}))  # one pair per caller
        # the caller may re-use (and later overwrite) the dicts it passed: what was enqueued
        # are the values at enqueue time
        if reuse:
            shared_params.clear()
            shared_params.update(params_of(q))
            shared_attrs.clear()
            shared_attrs.update({"qid": q["qid"]})
            params, attrs = shared_params, shared_attrs
        else:
            params, attrs = params_of(q), {"qid": q["qid"]}
        if q["how"] == "enqueue":
            study.enqueue_trial(params, user_attrs=attrs)
        else:
            study.add_trial(create_trial(state=TrialState.WAITING, system_attrs={"fixed_params": params}, user_attrs=attrs))
        if reuse:
            shared_params.update({"x": 0.999999, "c": "c", "i": 10})
            shared_attrs["qid"] = -1

    enq_done: list[int] = []
    for k in plan["pre"]:
        if k in queue:
            enqueue(study0, queue[k])
            enq_done.append(k)
    if hasattr(st0, "remove_session"):
        st0.remove_session()

    io_faults = [dict(f) for f in cfg.get("io_faults", [])]
    nfsync: dict[str, int] = {}
    amb = {"asks": 0, "enq": [], "tells": 0}
    if dep.fs is not None and io_faults:
        import errno as _errno

        def io_fault(task: Any, op: str) -> Any:
            if task is None:
                return None
            root = task.name.rstrip("+")
            nfsync[root] = nfsync.get(root, 0) + 1
            for f in io_faults:
                if f["task"] == root and f["nth"] == nfsync[root] - 1 and not f.get("fired"):
                    f["fired"] = True
                    return _errno.EIO
            return None

        dep.fs.io_fault = io_fault

    def injected(e: BaseException) -> bool:
        return isinstance(e, OSError) and getattr(e, "errno", None) == 5 and bool(io_faults)

    asks: list[dict] = []  # every successful ask()
    verdict: list[tuple[str, str]] = []
    studies: dict[str, Any] = {}

    def study_for(task_name: str, proc_name: str) -> Any:
        key = proc_name if cfg.get("share_study") else task_name
        if key not in studies:
            st = dep.client(procs[proc_name])
            studies[key] = optuna.load_study(study_name="q", storage=st, sampler=optuna.samplers.RandomSampler(seed=len(studies) + 2))
        return studies[key]

    def do_ask(name: str, study: Any) -> Any:
        try:
            trial = study.ask()
        except UpdateFinishedTrialError:
            sim.count("ask_lost_to_finished_trial")
            return None
        except OSError as e:
            if not injected(e):
                raise
            amb["asks"] += 1  # the claim (or the new trial) may have been recorded: ambiguous
            sim.count("ask_failed_io_error")
            return None
        qid = trial.user_attrs.get("qid")
        rec = {"by": name, "number": trial.number, "qid": qid, "sugg": {}}
        sim.note("ask", name, trial.number, qid)
        asks.append(rec)  # the worker has the trial from here on
        try:
            for n2, d in (("x", FloatDistribution(0.0, 1.0)), ("c", CategoricalDistribution(["a", "b", "c"])), ("i", IntDistribution(0, 10))):
                rec["sugg"][n2] = trial._suggest(n2, d)
            rec["sugg_again"] = trial.suggest_float("x", 0.0, 1.0)
        except OSError as e:
            if not injected(e):
                raise
            rec["io_error"] = True  # a suggest failed with the injected disk error
            sim.count("suggest_failed_io_error")
        return trial

    def make_consumer(name: str, t: dict) -> Any:
        def body() -> None:
            study = study_for(name, t["proc"])
            held: list[tuple[Any, str]] = []
            for op in t["ops"]:
                try:
                    trial = do_ask(name, study)
                except sched.SimKilled:
                    raise
                except Exception as e:  # noqa
                    verdict.append((prefix + "ask-raised|" + type(e).__name__, "%s ask() raised %r" % (name, e)))
                    return
                if trial is None:
                    continue
                held.append((trial, op["state"]))
                if op.get("hold"):
                    continue
                for tr, state in held:
                    _tell(study, tr, state)
                held = []
            for tr, state in held:
                _tell(study, tr, state)
            st = study._storage
            if hasattr(st, "remove_session"):
                st.remove_session()

        return body

    def _tell(study: Any, trial: Any, state: str) -> None:
        try:
            if state == "COMPLETE":
                study.tell(trial, 1.0)
            else:
                study.tell(trial, state=TrialState[state])
        except sched.SimKilled:
            raise
        except OSError as e:
            if not injected(e):
                raise
            amb["tells"] += 1
        except Exception as e:  # noqa
            verdict.append((prefix + "tell-raised|" + type(e).__name__, "tell(%d) raised %r" % (trial.number, e)))

    def make_producer(name: str, t: dict) -> Any:
        def body() -> None:
            study = study_for(name, t["proc"])
            for op in t["ops"]:
                q = queue.get(op["qid"])
                if q is None or q["qid"] in enq_done:
                    continue
                try:
                    enqueue(study, q)
                except sched.SimKilled:
                    raise
                except OSError as e:
                    if not injected(e):
                        raise
                    amb["enq"].append(q["qid"])  # may or may not be in the queue
                    sim.count("enqueue_failed_io_error")
                    continue
                except Exception as e:  # noqa
                    verdict.append((prefix + "enqueue-raised|" + type(e).__name__, "%s enqueue raised %r" % (name, e)))
                    return
                enq_done.append(q["qid"])
                sim.note("enq", name, q["qid"])
            st = study._storage
            if hasattr(st, "remove_session"):
                st.remove_session()

        return body

    tasks = []
    for n, t in sorted(plan["tasks"].items()):
        tasks.append(sim.spawn(procs[t["proc"]], n, (make_consumer if t["role"] == "consumer" else make_producer)(n, t)))
    status = sim.run()
    if status == "deadlock":
        return common.result(sim, ch, "violation", prefix + "deadlock", "; ".join("%s blocked on %s" % (t.name, t.blocked_why) for t in tasks if not t.done))
    if status == "stepcap":
        return common.result(sim, ch, "inconclusive", None, "step cap")
    for t in tasks:
        if t.exc is not None:
            raise RuntimeError("task %s died: %r" % (t.name, t.exc)) from t.exc
    nswitch1 = sim.switches

    def dup_check() -> Any:
        seen: dict[int, dict] = {}
        for a in asks:
            if a["number"] in seen:
                return common.result(sim, ch, "violation", prefix + "claimed-twice", "trial number %d (qid %r) was returned by ask() to %s and to %s%s" % (a["number"], a["qid"], seen[a["number"]]["by"], a["by"], ("; then: " + verdict[0][1]) if verdict else ""))
            seen[a["number"]] = a
        return None

    r = dup_check()
    if r is not None:
        return r
    if verdict:
        return common.result(sim, ch, "violation", verdict[0][0], verdict[0][1])
    # phase 2: every consumer asks once more (concurrently), then a sequential drain
    cons = [(n, t) for n, t in sorted(plan["tasks"].items()) if t["role"] == "consumer"]

    def one_more(name: str, t: dict) -> Any:
        def body() -> None:
            study = study_for(name, t["proc"])
            try:
                tr = do_ask(name, study)
            except sched.SimKilled:
                raise
            except Exception as e:  # noqa
                verdict.append((prefix + "ask-raised|" + type(e).__name__, "%s ask() raised %r" % (name, e)))
                return
            if tr is not None:
                _tell(study, tr, "COMPLETE")
            if hasattr(study._storage, "remove_session"):
                study._storage.remove_session()

        return body

    t2 = [sim.spawn(procs[t["proc"]], n + "+", one_more(n, t)) for n, t in cons]
    more = list(t2)

    def drain() -> None:
        if not cons:
            return
        n, t = cons[0]
        study = study_for(n, t["proc"])
        sim.block_until(lambda: all(x.done for x in more), "drain-wait")
        for _ in range(len(queue) + 3):
            try:
                tr = do_ask("drain", study)
            except sched.SimKilled:
                raise
            except Exception as e:  # noqa
                verdict.append((prefix + "ask-raised|" + type(e).__name__, "drain ask() raised %r" % (e,)))
                return
            if tr is None:
                continue
            _tell(study, tr, "COMPLETE")
            if asks[-1]["qid"] is None:
                break
        if hasattr(study._storage, "remove_session"):
            study._storage.remove_session()

    if cons:
        t2.append(sim.spawn(procs[cons[0][1]["proc"]], "drain", drain))
    status = sim.run()
    if status != "ok":
        return common.result(sim, ch, "violation" if status == "deadlock" else "inconclusive", prefix + "deadlock-in-drain", status)
    for t in t2:
        if t.exc is not None:
            raise RuntimeError("task %s died: %r" % (t.name, t.exc)) from t.exc
    r = dup_check()
    if r is not None:
        return r
    if verdict:
        return common.result(sim, ch, "violation", verdict[0][0], verdict[0][1])
    # ---- oracle
    seams.set_sim(sim, dep.fs)
    nontrivial = nswitch1 > 0 and len(enq_done) >= 2 and len(cons) >= 2
    by_number: dict[int, list[dict]] = {}
    for a in asks:
        by_number.setdefault(a["number"], []).append(a)
    for num, recs in sorted(by_number.items()):
        if len(recs) > 1:
            return common.result(sim, ch, "violation", prefix + "claimed-twice", "trial number %d (qid %r) was returned by ask() to %r" % (num, recs[0]["qid"], [r["by"] for r in recs]), nontrivial=nontrivial)
    obs = dep.observer()
    sid = obs.get_study_id_from_name("q")
    stored = obs.get_all_trials(sid, deepcopy=False)
    by_qid = {}
    for t in stored:
        k = t.user_attrs.get("qid")
        if k is None:
            continue
        if k in by_qid:
            return common.result(sim, ch, "violation", prefix + "enqueued-twice", "one enqueue call for qid=%r, but trials %d and %d both carry it" % (k, by_qid[k].number, t.number), nontrivial=nontrivial)
        by_qid[k] = t
    for k in amb["enq"]:
        if k in by_qid and k not in enq_done:
            enq_done.append(k)  # the failed enqueue call did take effect
    got = {a["qid"]: a for a in asks if a["qid"] is not None}
    if cons:
        for k in sorted(enq_done):
            t = by_qid.get(k)
            if t is None:
                return common.result(sim, ch, "violation", prefix + "enqueued-trial-lost", "enqueued trial qid=%d is not in the study" % k, nontrivial=nontrivial)
            if k not in got and t.state != TrialState.WAITING and amb["asks"] > 0:
                amb["asks"] -= 1  # claimed by an ask() that then failed with an I/O error: exempt
                sim.count("exempt_ambiguous_claim")
                continue
            if t.state == TrialState.WAITING or k not in got:
                return common.result(sim, ch, "violation", prefix + "skipped", "enqueued trial qid=%d (number %d) was never returned by ask() although consumers kept asking and the drain ran; its state is %s; asks: %r" % (k, t.number, t.state.name, [(a["by"], a["number"], a["qid"]) for a in asks]), nontrivial=nontrivial)
    for k, a in sorted(got.items()):
        q = queue.get(k)
        t = by_qid.get(k)
        if q is None or t is None:
            continue
        want = params_of(q)
        if a.get("io_error"):
            continue
        for name, v in want.items():
            if a["sugg"].get(name) != v:
                return common.result(sim, ch, "violation", prefix + "wrong-fixed-param", "consumer %s got %s=%r for enqueued trial qid=%d, enqueued value %r" % (a["by"], name, a["sugg"].get(name), k, v), nontrivial=nontrivial)
            if t.params.get(name) != v:
                return common.result(sim, ch, "violation", prefix + "stored-param-differs", "stored %s=%r for qid=%d, enqueued %r" % (name, t.params.get(name), k, v), nontrivial=nontrivial)
        if a["sugg_again"] != want["x"]:
            return common.result(sim, ch, "violation", prefix + "wrong-fixed-param", "second suggest of x returned %r, enqueued %r" % (a["sugg_again"], want["x"]), nontrivial=nontrivial)
        if a["number"] != t.number:
            return common.result(sim, ch, "violation", prefix + "number-changed", "ask() returned number %d for qid=%d, stored number %d" % (a["number"], k, t.number), nontrivial=nontrivial)
        if t.user_attrs.get("qid") != k:
            return common.result(sim, ch, "violation", prefix + "user-attrs-changed", "user attrs %r" % (t.user_attrs,), nontrivial=nontrivial)
    return common.result(sim, ch, "ok", nontrivial=nontrivial, extra_counters={"enqueued": len(enq_done), "asks": len(asks), "asks_of_queued": len(got)})
