"""C07 - the journal file is an intact, totally ordered log under concurrent writers.

2-4 JournalFileBackend objects, each with its own lock object, append and read one file on
SimFS under pre-emption at every source line of journal/_file.py and every syscall, with
writes delivered in seeded chunks and reads in seeded block sizes.  No crashes, no stalls
(those are C05).  Monitors: lock intervals never overlap; every read_logs(k) returns
exactly records k..m of the append order with m covering every append that had returned
before the read began; at quiescence the file is the concatenation of all records; every
backend's offset cache agrees with a fresh reader.
"""
from __future__ import annotations

import json
import warnings
from typing import Any

from checks import common
from simkit import deploy, sched, seams

ID = "C07"
LEVEL = "exploration"
BUDGET = {"quick": 45, "thorough": 900}
PATH = deploy.JOURNAL_PATH

EVIDENCE = {
    "rule": "one case = one simulated execution of 2-4 tasks (one JournalFileBackend + lock object each) running generated append_logs/read_logs scripts on one SimFS file; non-trivial = at least one context switch while a task was inside append_logs/read_logs; distinct = distinct event-order digests.",
    "assumptions": [
        "SimFS models the POSIX subset used by _file.py: atomic symlink/O_EXCL create/rename/unlink, O_APPEND writes atomic per write syscall, fine-grained mtime",
        "no crash, no stall longer than the grace period (with such a stall mutual exclusion is given up by design; that is C05's territory)",
        "the lock-interval monitor measures from acquire() returning to release() being called, a subset of the true interval, so every reported overlap is real",
    ],
    "components": {"real": "optuna/storages/journal/_file.py (backend, both lock classes), json", "stub": "file system (SimFS), clocks, uuid, OS scheduler"},
}


def gen_plan(seed: int, run: int, tier: str) -> dict:
    rng = common.rng_for(seed, run, "work")
    ntasks = rng.choice([2, 2, 3, 3, 4])
    tasks = {}
    uid = 0
    for i in range(ntasks):
        ops = []
        for _ in range(rng.randint(2, 6 if tier == "quick" else 10)):
            if rng.random() < 0.5:
                recs = []
                for _ in range(rng.choice([1, 1, 2, 3])):
                    uid += 1
                    recs.append({"id": uid, "pad": rng.choice([0, 1, 7, 40, 120, 300, 300, 4100, 9000]), "mb": rng.random() < 0.4})
                ops.append({"op": "append", "recs": recs})
            elif rng.random() < 0.08:
                # the journal stays idle for longer than any grace period (virtual time)
                ops.append({"op": "idle", "dur": rng.choice([35.0, 120.0, 4000.0])})
            else:
                ops.append({"op": "read", "from": rng.choice(["zero", "cached", "cached", "last", "beyond", "abs"]), "arg": rng.randint(0, 12)})
        # wall-clock skew of this process against the file server's clock (mtimes)
        tasks["t%d" % i] = {"ops": ops, "skew": rng.choice([0.0, 0.0, 0.0, 120.0, -120.0, 3600.0])}
    cfg = {
        "lock": rng.choice(["sym", "open"]),
        "grace_period": rng.choice([None, 3, 10, 30]),
        "read_block": rng.choice([16, 32, 64, 256, 8192]),
        "chunked_write": rng.random() < 0.7,
        "chunk_seed": rng.getrandbits(30),
        "p_line": rng.choice([0.02, 0.08, 0.25]),
        "p_seam": rng.choice([0.1, 0.3, 0.6]),
        "short_writes": rng.random() < 0.3,
    }
    if cfg["grace_period"] is not None and rng.random() < 0.3:
        # slow disk: some fsyncs take half a grace period - their callers hold the lock that
        # long, alive; a waiter that has been waiting for longer than the grace period *in
        # total* (over several such holders) must not break anybody's lock
        cfg["slow_fsync"] = [{"task": rng.choice(sorted(tasks)), "nth": rng.randint(0, 4)} for _ in range(rng.randint(1, 4))]
    if rng.random() < 0.3:
        # a transient error when the lock file is created (EMFILE / ENOSPC / EIO): that append
        # fails without having held the lock, everybody else must be unaffected
        cfg["create_faults"] = [{"task": rng.choice(sorted(tasks)), "nth": rng.randint(0, 6), "errno": rng.choice([24, 28, 5])} for _ in range(rng.randint(1, 2))]
    if any(r["pad"] >= 4000 for t in tasks.values() for o in t["ops"] for r in o.get("recs", [])):
        # multi-KiB records with 16-byte read blocks would cost hundreds of thousands of steps
        cfg["read_block"] = rng.choice([256, 1024, 8192])
    return {"check": ID, "seed": seed, "run": run, "cfg": cfg, "tasks": tasks, "sched": {"seed": rng.getrandbits(48)}}


def shrink_paths(plan: dict) -> list[tuple]:
    return [("tasks", n, "ops") for n in plan["tasks"]] + [("sched", "table")]


def signature_class(sig: str) -> str:
    return "|".join(sig.split("|")[:3])


def sample_view(plan: dict, res: dict) -> dict:
    return {"cfg": plan["cfg"], "tasks": {n: [o["op"] + (":%d" % len(o["recs"]) if o["op"] == "append" else ":" + str(o.get("from", o.get("dur")))) for o in t["ops"]] for n, t in plan["tasks"].items()}, "switches": res["switches"]}


def payload(rec: dict, task: str) -> dict:
    pad = ("é漢" * (rec["pad"] // 2 + 1))[: rec["pad"]] if rec["mb"] else "x" * rec["pad"]
    return {"op_code": 99, "worker_id": task, "id": rec["id"], "pad": pad}


def run_plan(plan: dict) -> dict:
    cfg = plan["cfg"]
    ch = common.make_chooser(plan)
    sim = sched.Sim(ch, trace_suffixes=("optuna/storages/journal/_file.py",), max_steps=600000, uuid_salt=str(plan.get("run", 0)))
    dep = deploy.Deployment(sim, "jf-" + cfg["lock"], cfg)
    try:
        return _run(plan, sim, ch, dep)
    finally:
        dep.close()


def _run(plan: dict, sim: sched.Sim, ch: sched.Chooser, dep: deploy.Deployment) -> dict:
    from optuna.storages.journal import JournalFileBackend, JournalFileOpenLock, JournalFileSymlinkLock

    cfg = plan["cfg"]
    fs = dep.fs
    prefix = "%s|%s|" % (ID, cfg["lock"])
    verdict: list[tuple[str, str]] = []
    order: list[dict] = []  # records in append (critical-section) order
    holders: list[str] = []
    completed = [0]  # number of records whose append_logs call has returned
    failed_ids: set = set()  # records of appends that failed with an injected lock-creation error
    inflight = {"writes": 0, "release": set()}

    def on_op(op: str, path: str) -> None:
        t = sim.cur.name if sim.cur else "-"
        if op == "write":
            # detail "#i/n@off": a multi-chunk write is in flight between first and last chunk
            pass
        if op in ("read", "stat") and inflight["writes"] > 0:
            sim.count("probe.reader_during_partial_write")
        if op == "rename":
            inflight["release"].add(t)
        elif op == "unlink":
            inflight["release"].discard(t)
        elif op in ("symlink", "open_excl") and inflight["release"] - {t}:
            sim.count("probe.acquire_between_rename_and_unlink")

    fs.on_op = on_op
    orig_chunker = fs.chunker

    def chunker(task: Any, n: int) -> list[int]:
        sizes = orig_chunker(task, n) if orig_chunker is not None else [n]
        return sizes

    def mk_backend() -> Any:
        with warnings.catch_warnings():
            warnings.simplefilter("ignore")
            cls = JournalFileOpenLock if cfg["lock"] == "open" else JournalFileSymlinkLock
            lock = cls(PATH, grace_period=cfg["grace_period"])
        b = JournalFileBackend(PATH, lock_obj=lock)
        oa, orl = lock.acquire, lock.release

        def acquire() -> bool:
            r = oa()
            me = sim.cur.name if sim.in_task() else "harness"
            holders.append(me)
            if len(holders) > 1 and not verdict:
                verdict.append((prefix + "lock-overlap", "tasks %r hold the file lock at the same time (step %d)" % (holders, sim.seq)))
            pend = pending.pop(me, [])
            order.extend(pend)
            return r

        def release() -> None:
            me = sim.cur.name if sim.in_task() else "harness"
            if me in holders:
                holders.remove(me)
            return orl()

        lock.acquire = acquire  # type: ignore[method-assign]
        lock.release = release  # type: ignore[method-assign]
        return b

    pending: dict[str, list[dict]] = {}
    proc = {n: sim.proc("P" + n, skew=float(plan["tasks"][n].get("skew", 0.0))) for n in sorted(plan["tasks"])}
    if cfg.get("short_writes"):
        import random as _r

        srng = _r.Random(cfg.get("chunk_seed", 1) ^ 0x51)
        fs.short_writer = lambda task, n: n if n <= 1 or srng.random() < 0.5 else srng.randrange(1, n)
    backends = {n: mk_backend() for n in sorted(plan["tasks"])}
    slow_fsync = [dict(f) for f in cfg.get("slow_fsync", [])]
    if slow_fsync and cfg.get("grace_period"):
        nsync: dict[str, int] = {}

        def slow(task: Any, op: str) -> Any:
            if task is None:
                return None
            nsync[task.name] = nsync.get(task.name, 0) + 1
            for f in slow_fsync:
                if not f.get("fired") and f["task"] == task.name and f["nth"] == nsync[task.name] - 1:
                    f["fired"] = True
                    return 0.5 * float(cfg["grace_period"])
            return None

        fs.slow = slow
    create_faults = [dict(f) for f in cfg.get("create_faults", [])]
    ncreate: dict[str, int] = {}
    injected: list[BaseException] = []

    if create_faults:

        def io_fault(task: Any, op: str) -> Any:
            if op != "create" or task is None:
                return None
            ncreate[task.name] = ncreate.get(task.name, 0) + 1
            for f in create_faults:
                if not f.get("fired") and f["task"] == task.name and f["nth"] == ncreate[task.name] - 1:
                    f["fired"] = True
                    return f["errno"]
            return None

        fs.io_fault = io_fault

    def resolve_from(b: Any, spec: str, arg: int) -> int:
        known = sorted(b._log_number_offset)
        if spec == "zero":
            return 0
        if spec == "cached":
            return known[arg % len(known)]
        if spec == "last":
            return known[-1]
        if spec == "beyond":
            return known[-1] + 1 + arg % 3
        return arg

    def check_read(name: str, k: int, got: Any, done_before: int, exc: BaseException | None) -> None:
        if verdict:
            return
        if exc is not None:
            verdict.append((prefix + "read-raised|" + type(exc).__name__, "%s read_logs(%d) raised %r" % (name, k, exc)))
            return
        exp = order[k : k + len(got)]
        if got != exp:
            verdict.append((prefix + "read-wrong-records", "%s read_logs(%d) returned ids %r, append order from %d is %r" % (name, k, [g.get("id") for g in got], k, [e["id"] for e in order[k : k + len(got) + 2]])))
            return
        if k + len(got) < done_before and k <= done_before:
            verdict.append((prefix + "read-misses-finished-append", "%s read_logs(%d) returned %d records (up to %d) but %d records had been appended by calls that returned before the read began" % (name, k, len(got), k + len(got), done_before)))

    def make_task(name: str, t: dict) -> Any:
        b = backends[name]

        def body() -> None:
            for op in t["ops"]:
                if verdict:
                    return
                if op["op"] == "idle":
                    sim.sleep(op["dur"])
                    continue
                if op["op"] == "append":
                    logs = [payload(r, name) for r in op["recs"]]
                    pending[name] = list(logs)
                    sim.note("append.inv", name, [r["id"] for r in op["recs"]])
                    try:
                        b.append_logs(logs)
                    except OSError as e:
                        if any(f.get("fired") and not f.get("seen") and f["task"] == name and f["errno"] == e.errno for f in create_faults):
                            # the injected error: this append failed before it held the lock;
                            # none of its records may ever show up
                            for f in create_faults:
                                if f.get("fired") and not f.get("seen") and f["task"] == name and f["errno"] == e.errno:
                                    f["seen"] = True
                                    break
                            failed_ids.update(r["id"] for r in op["recs"])
                            pending.pop(name, None)
                            sim.note("append.failed", name, e.errno)
                            continue
                        verdict.append((prefix + "append-raised|" + type(e).__name__, "%s append_logs raised %r" % (name, e)))
                        return
                    except Exception as e:  # noqa
                        verdict.append((prefix + "append-raised|" + type(e).__name__, "%s append_logs raised %r" % (name, e)))
                        return
                    completed[0] += len(logs)
                    sim.note("append.ret", name)
                else:
                    k = resolve_from(b, op["from"], op["arg"])
                    done_before = completed[0]
                    sim.note("read.inv", name, k)
                    got, exc = None, None
                    try:
                        got = b.read_logs(k)
                    except Exception as e:  # noqa
                        exc = e
                    sim.note("read.ret", name, None if got is None else [g.get("id") for g in got])
                    check_read(name, k, got, done_before, exc)

        return body

    # count in-flight multi-chunk writes through the SimFS write seam detail
    real_seam = fs._seam

    def seam(op: str, path: str = "") -> None:
        if op == "write" and "#" in path:
            idx, rest = path.rsplit("#", 1)[1].split("/")
            n = int(rest.split("@")[0])
            i = int(idx)
            if n > 1:
                if i == 0:
                    inflight["writes"] += 1
                real_seam(op, path)
                if i == n - 1:
                    inflight["writes"] -= 1
                return
        real_seam(op, path)

    fs._seam = seam  # type: ignore[method-assign]
    tasks = [sim.spawn(proc[n], n, make_task(n, t)) for n, t in sorted(plan["tasks"].items())]
    status = sim.run()
    if status == "deadlock":
        why = "; ".join("%s blocked on %s" % (t.name, t.blocked_why) for t in tasks if not t.done)
        return common.result(sim, ch, "violation", prefix + "deadlock", why)
    if status == "stepcap":
        # a step cap alone proves nothing (large records x small read blocks are simply long
        # runs); a livelock shows as *virtual time* piling up in back-off sleeps while nobody
        # makes progress - far beyond what the idle gaps of the plan account for
        idle = sum(o.get("dur", 0.0) for t in plan["tasks"].values() for o in t["ops"] if o["op"] == "idle")
        if sim.now - sim.t0 - idle > 300.0:
            return common.result(sim, ch, "violation", prefix + "livelock", "step cap reached after %.0f simulated seconds of waiting (idle gaps in the plan: %.0f s): some task never gets the lock / never finishes" % (sim.now - sim.t0, idle))
        return common.result(sim, ch, "inconclusive", None, "step cap (long run)")
    for t in tasks:
        if t.exc is not None:
            raise RuntimeError("task %s died: %r" % (t.name, t.exc)) from t.exc
    if verdict:
        return common.result(sim, ch, "violation", verdict[0][0], verdict[0][1])
    if failed_ids & {r["id"] for r in order}:
        return common.result(sim, ch, "violation", prefix + "failed-append-written", "records %r of an append that raised were written" % sorted(failed_ids & {r["id"] for r in order}))
    # (3) file == concatenation of all records in append order
    seams.set_sim(sim, fs)
    expected = b"".join(json.dumps(r, separators=(",", ":")).encode("utf-8") + b"\n" for r in order)
    raw = fs.raw(PATH)
    if raw != expected:
        return common.result(sim, ch, "violation", prefix + "file-not-concatenation", "file has %d bytes, expected %d; first difference at byte %d" % (len(raw), len(expected), next((i for i, (a, b) in enumerate(zip(raw, expected)) if a != b), min(len(raw), len(expected)))))
    if fs.exists(PATH + ".lock"):
        return common.result(sim, ch, "violation", prefix + "lock-left-behind", "lock file exists at quiescence")
    # (4) every backend's cached offsets agree with a fresh reader
    fresh = JournalFileBackend(PATH)
    for name, b in sorted(backends.items()):
        for k in sorted(set(list(b._log_number_offset) + [0, len(order), len(order) + 1])):
            try:
                got = b.read_logs(k)
                ref = fresh.read_logs(k)
            except Exception as e:  # noqa
                return common.result(sim, ch, "violation", prefix + "final-read-raised|" + type(e).__name__, "%s read_logs(%d): %r" % (name, k, e))
            if got != order[k:] or ref != order[k:]:
                return common.result(sim, ch, "violation", prefix + "offset-cache-inconsistent", "%s read_logs(%d) -> ids %r, fresh reader %r, appended %r" % (name, k, [g.get("id") for g in got], [g.get("id") for g in ref], [g["id"] for g in order[k:]]))
    return common.result(sim, ch, "ok", extra_counters={"records": len(order)})
