"""Wing-Gong / Lowe style linearizability search against ModelStorage.

History entries: {"inv": int, "ret": int | None, "op": dict, "res": tuple, "task": str}
stamped with the scheduler's global event sequence numbers.  `ret is None` marks an
operation whose outcome is ambiguous (issuer crashed inside it / connection reset after
execution): it may take effect at any point after its invocation, or never.
"""
from __future__ import annotations

from typing import Any

from . import ops as opsmod
from .model import ModelStorage


class EnvState(opsmod.Env):
    def clone(self) -> "EnvState":
        e = EnvState.__new__(EnvState)
        e.real = self.real  # static after the run
        e.m_of_real_s = dict(self.m_of_real_s)
        e.m_of_real_t = dict(self.m_of_real_t)
        e.violations = []
        e.pending_t = self.pending_t
        e.pending_s = self.pending_s
        return e

    def key(self) -> Any:
        return (tuple(sorted(self.m_of_real_s.items())), tuple(sorted(self.m_of_real_t.items())), self.pending_t, self.pending_s)


def check(history: list[dict], model: ModelStorage, env: EnvState, max_nodes: int = 200000) -> dict:
    """Returns {"ok": bool, "inconclusive": bool, "nodes": int, "why": str, "order": [...]}."""
    n = len(history)
    INF = float("inf")
    inv = [h["inv"] for h in history]
    ret = [INF if h["ret"] is None else h["ret"] for h in history]
    seen: set = set()
    nodes = 0
    best_depth = 0
    best_why = ""
    # iterative DFS
    stack: list[tuple] = [(frozenset(), model, env, ())]
    while stack:
        done, m, e, order = stack.pop()
        if len(done) == n or all(history[i]["ret"] is None for i in range(n) if i not in done):
            return {"ok": True, "inconclusive": False, "nodes": nodes, "why": "", "order": list(order)}
        nodes += 1
        if nodes > max_nodes:
            return {"ok": True, "inconclusive": True, "nodes": nodes, "why": "node budget", "order": []}
        # minimal ops: no other pending op returned before this one was invoked
        min_ret = min(ret[i] for i in range(n) if i not in done)
        for i in range(n):
            if i in done or inv[i] > min_ret:
                continue
            h = history[i]
            if h["op"]["op"].startswith("get_") and not e.pending_t and not e.pending_s:
                m2, e2 = m, e  # getters never change the model (nor the bindings)
            else:
                m2 = m.clone()
                e2 = e.clone()
            if h["ret"] is None:
                # ambiguous op: apply its effect as the model would, ignore the result
                res = _apply_blind(m2, h["op"], e2)
                if res is False:
                    continue
            else:
                c = opsmod.apply_model(m2, h["op"], e2, h["res"])
                if c[0] == "diff" or e2.violations:
                    if len(done) >= best_depth:
                        best_depth = len(done)
                        best_why = "%s %s: %s" % (h["task"], h["op"].get("op"), c[1] if c[0] == "diff" else e2.violations)
                    continue
            d2 = done | {i}
            key = (d2, m2.key(), e2.key())
            if key in seen:
                continue
            seen.add(key)
            stack.append((d2, m2, e2, order + (i,)))
    return {"ok": False, "inconclusive": False, "nodes": nodes, "why": best_why, "order": []}


def _apply_blind(m: ModelStorage, op: dict, e: EnvState) -> bool:
    """Effect of an op whose result nobody saw.  Creation ops cannot be bound to a
    backend id here; they are handled by the callers that generate ambiguous ops."""
    k = op["op"]
    try:
        if k == "create_new_trial":
            sid = opsmod._rid(e, op["study"])
            if sid is None:
                return True
            msid = e.msid(sid)
            if msid not in m.studies:
                return True  # would have failed: no effect
            mt = m.create_new_trial(msid, op.get("template"))
            e.pending_t = e.pending_t + (mt,)
            return True
        if k == "create_new_study":
            try:
                ms = m.create_new_study(op["directions"], op.get("name"))
            except opsmod.ModelError:
                return True
            e.pending_s = e.pending_s + (ms,)
            return True
        opsmod.apply_model(m, op, e, ("ok", _expected_ok(k)))
        return True
    except Exception:
        return False


def _expected_ok(k: str) -> Any:
    return True if k == "set_trial_state_values" else None


def read_matches_some_state(history: list[dict], order: list[int], model: ModelStorage, env: EnvState, read: dict) -> bool:
    """Does the result of `read` equal what the model returns in *some* state along the
    linearization `order` of `history` (the writes)?  A read that matches an earlier state is
    a stale but consistent snapshot; one that matches no state at all is torn."""
    m, e = model.clone(), env.clone()

    def ok_now() -> bool:
        e2 = e.clone()
        c = opsmod.apply_model(m.clone(), read["op"], e2, read["res"])
        return c[0] == "ok" and not e2.violations

    if ok_now():
        return True
    for i in order:
        h = history[i]
        if h["op"]["op"].startswith("get_"):
            continue
        if h["ret"] is None:
            _apply_blind(m, h["op"], e)
        else:
            opsmod.apply_model(m, h["op"], e, h["res"])
        if ok_now():
            return True
    return False
