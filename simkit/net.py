"""SimNet: in-process gRPC.  The client's stub serialises the real protobuf request, a
server *process* runs the real OptunaStorageProxyService around the chosen backend with
a pool of worker tasks; the scheduler decides which idle worker serves which request
(JournalStorage identifies the issuer by thread).  The grpc C core is not exercised.
"""
from __future__ import annotations

import random
from typing import Any, Callable

import grpc

from .sched import SimKilled


class SimRpcError(grpc.RpcError):
    def __init__(self, code: Any, details: str) -> None:
        super().__init__(details)
        self._code = code
        self._details = details

    def code(self) -> Any:
        return self._code

    def details(self) -> str:
        return self._details

    def __str__(self) -> str:
        return "SimRpcError(%s, %s)" % (self._code, self._details)


class _Abort(Exception):
    pass


class SimContext:
    code: Any = None
    details: str = ""

    def abort(self, code: Any, details: str) -> None:
        self.code = code
        self.details = details
        raise _Abort()


class _Slot:
    __slots__ = ("done", "reply", "error", "taken", "method")

    def __init__(self, method: str) -> None:
        self.done = False
        self.reply: Any = None
        self.error: Any = None
        self.taken = False
        self.method = method


class SimServer:
    def __init__(self, sim: Any, deployment: Any, cfg: dict) -> None:
        self.sim = sim
        self.dep = deployment
        self.cfg = cfg
        self.pool = int(cfg.get("pool", 10))
        self.index = getattr(sim, "_nservers", 0)
        sim._nservers = self.index + 1
        self.generation = 0
        self.inbox: list[tuple] = []
        self.inflight: list[_Slot] = []
        self.on_start: list[Callable[[], None]] = []
        self.proc: Any = None
        self.servicer: Any = None
        self.inner: Any = None
        self.down = False
        # fault hook: fault(client_task_name, method, phase) -> bool ; phases: "pre", "post"
        self.fault: Callable[[str, str, str], bool] | None = None
        self._delay_rng = random.Random(cfg.get("net_seed", 11))
        self.max_delay = float(cfg.get("net_delay", 0.0))
        self.start()

    def start(self) -> None:
        from optuna.storages._grpc import servicer as smod

        sim = self.sim
        self.generation += 1
        gen = self.generation
        tag = "" if self.index == 0 else "%d_" % self.index
        proc = sim.proc("SRV%s%d" % (tag, gen))
        # the backend object is created in the server process; the server only accepts
        # connections (down = False) once it is complete
        inner = self.dep._new_inner(proc)
        servicer = smod.OptunaStorageProxyService(inner)
        self.proc, self.inner, self.servicer = proc, inner, servicer
        for i in range(self.pool):
            t = sim.spawn(proc, "srv%s%d.%d" % (tag, gen, i), self._worker)
            t.daemon = True
            t.serving = None
        self.down = False
        for cb in self.on_start:
            cb()

    def crash(self) -> None:
        """kill -9 of the server process: queued and in-flight requests fail UNAVAILABLE."""
        self.down = True
        self.sim.crash(self.proc)
        for slot in [item[3] for item in self.inbox] + self.inflight:
            if not slot.done:
                slot.error = (grpc.StatusCode.UNAVAILABLE, "server died")
                slot.done = True
        self.inbox = []  # new lists: workers of the dead generation keep the old ones
        self.inflight = []

    def crash_and_restart(self) -> None:
        self.crash()
        self.start()

    def _worker(self) -> None:
        sim = self.sim
        inbox = self.inbox
        inflight = self.inflight
        servicer = self.servicer
        proc = self.proc
        while True:
            sim.block_until(lambda: bool(inbox), "srv.idle")
            method, reqtype, wire, slot, client = inbox.pop(0)
            slot.taken = True
            inflight.append(slot)
            sim.cur.serving = (client, method)
            sim.seam("rpc.recv", method)
            sim.count("rpc.served")
            req = reqtype.FromString(wire)
            ctx = SimContext()
            reply = error = None
            try:
                rep = getattr(servicer, method)(req, ctx)
                reply = (type(rep), rep.SerializeToString())
            except _Abort:
                error = (ctx.code, ctx.details)
            except SimKilled:
                raise
            except Exception as e:  # grpc turns uncaught exceptions into UNKNOWN
                error = (grpc.StatusCode.UNKNOWN, "Exception calling application: %r" % (e,))
                sim.count("rpc.unknown_error")
            if proc.dead:
                raise SimKilled()  # the process died inside the handler: nothing leaves it
            slot.reply, slot.error = reply, error
            if self.max_delay > 0 and self._delay_rng.random() < 0.3:
                # the reply is held up on its way back (replies of one client may be re-ordered)
                sim.count("rpc.reply_delayed")
                sim.sleep(self._delay_rng.random() * self.max_delay)
            sim.cur.serving = None
            slot.done = True
            if slot in inflight:
                inflight.remove(slot)
            sim.seam("rpc.reply", method)

    # ------------------------------------------------------------------ clients
    def new_client(self, proc: Any) -> Any:
        """A real GrpcStorageProxy: its own __init__ and the generated StorageServiceStub run
        unchanged on a SimChannel (grpc.insecure_channel is the seam), so channel options the
        client configures - notably a retry policy in grpc.service_config - take effect."""
        from optuna.storages import GrpcStorageProxy
        from optuna.storages._grpc import client as cmod

        if not isinstance(getattr(cmod, "grpc", None), GrpcShim):
            cmod.grpc = GrpcShim()
        port = 20000 + id_of(self)
        _SERVERS[port] = self
        return GrpcStorageProxy(host="sim", port=port)

    def call(self, method: str, request: Any) -> Any:
        sim = self.sim
        wire = request.SerializeToString()
        if not sim.in_task():
            # harness thread: serve synchronously (no pool thread involved)
            slot = _Slot(method)
            ctx = SimContext()
            try:
                rep = getattr(self.servicer, method)(type(request).FromString(wire), ctx)
                return type(rep).FromString(rep.SerializeToString())
            except _Abort:
                raise SimRpcError(ctx.code, ctx.details)
            except Exception as e:
                raise SimRpcError(grpc.StatusCode.UNKNOWN, "Exception calling application: %r" % (e,))
        me = sim.cur.name
        sim.count("rpc.call")
        if self.fault is not None and self.fault(me, method, "pre"):
            sim.count("rpc.reset_pre")
            sim.seam("rpc.fail", method)
            raise SimRpcError(grpc.StatusCode.UNAVAILABLE, "connection reset before delivery")
        if self.max_delay > 0 and self._delay_rng.random() < 0.3:
            sim.sleep(self._delay_rng.random() * self.max_delay)
        sim.seam("rpc.send", method)
        if self.down:
            raise SimRpcError(grpc.StatusCode.UNAVAILABLE, "server down")
        slot = _Slot(method)
        self.inbox.append((method, type(request), wire, slot, me))
        sim.block_until(lambda: slot.done, "rpc")
        if self.fault is not None and self.fault(me, method, "post"):
            sim.count("rpc.reset_post")
            raise SimRpcError(grpc.StatusCode.UNAVAILABLE, "connection reset after execution")
        if slot.error is not None:
            raise SimRpcError(slot.error[0], slot.error[1])
        reptype, data = slot.reply
        return reptype.FromString(data)


_SERVERS: dict[int, "SimServer"] = {}
_server_ids: dict[int, int] = {}


def id_of(server: "SimServer") -> int:
    k = id(server)
    if k not in _server_ids:
        _server_ids[k] = len(_server_ids) + 1
    return _server_ids[k]


class GrpcShim:
    """Stands in for the `grpc` module inside optuna/storages/_grpc/client.py."""

    def insecure_channel(self, target: str, options: Any = None, compression: Any = None) -> "SimChannel":
        port = int(str(target).rsplit(":", 1)[1])
        return SimChannel(_SERVERS[port], options or [])

    def __getattr__(self, name: str) -> Any:
        return getattr(grpc, name)


class SimChannel:
    """What the generated stub needs from a grpc.Channel, plus gRPC's client-side retry
    policy (service config): a call that fails with a retryable status code is re-sent up to
    maxAttempts times - also when the failed attempt had been executed by the server."""

    def __init__(self, server: "SimServer", options: Any) -> None:
        import json as _json

        self.server = server
        self.retry: list[tuple[Any, int, set]] = []  # (method or None, maxAttempts, codes)
        opts = dict((k, v) for k, v in options)
        if opts.get("grpc.enable_retries", 1) and "grpc.service_config" in opts:
            try:
                cfgs = _json.loads(opts["grpc.service_config"]).get("methodConfig", [])
            except Exception:
                cfgs = []
            for mc in cfgs:
                rp = mc.get("retryPolicy")
                if not rp:
                    continue
                for nm in mc.get("name", [{}]):
                    self.retry.append((nm.get("method"), int(rp.get("maxAttempts", 1)), set(rp.get("retryableStatusCodes", []))))

    def unary_unary(self, path: str, request_serializer: Any = None, response_deserializer: Any = None, **kw: Any) -> Any:
        method = path.rsplit("/", 1)[1]
        server = self.server
        policy = next(((m, n, codes) for m, n, codes in self.retry if m in (None, method)), None)

        def call(request: Any, timeout: Any = None, metadata: Any = None, **k: Any) -> Any:
            attempts = 0
            while True:
                attempts += 1
                try:
                    return server.call(method, request)
                except SimRpcError as e:
                    if policy is not None and attempts < policy[1] and e.code().name in policy[2]:
                        server.sim.count("rpc.client_retry")
                        continue
                    raise

        return call

    def close(self) -> None:
        pass


class SimStub:
    def __init__(self, server: SimServer) -> None:
        self._server = server

    def __getattr__(self, method: str) -> Any:
        if method.startswith("_"):
            raise AttributeError(method)
        server = self._server

        def call(request: Any) -> Any:
            return server.call(method, request)

        return call
