"""SimFS: the POSIX subset used by optuna/storages/journal/_file.py, in memory.

Every call is atomic and is a yield point / crash point of the simulator (`sim.seam`).
Buffered writers deliver one flush as one or several write syscalls (`chunker`), buffered
readers fetch blocks of `read_block` bytes, so records that straddle a block or a
`st_size` snapshot are exercised.  Process death = descriptors vanish, bytes already
handed to write() stay.
"""
from __future__ import annotations

import errno
import os as _os
from typing import Any, Callable


class StatResult:
    __slots__ = ("st_size", "st_mtime", "st_ino")

    def __init__(self, size: int, mtime: float, ino: int) -> None:
        self.st_size = size
        self.st_mtime = mtime
        self.st_ino = ino


class _Inode:
    __slots__ = ("data", "mtime", "ino")

    def __init__(self, ino: int, mtime: float) -> None:
        self.data = bytearray()
        self.mtime = mtime
        self.ino = ino


class SimFS:
    def __init__(self, sim: Any, read_block: int = 8192) -> None:
        self.sim = sim
        self.files: dict[str, _Inode] = {}
        self.links: dict[str, str] = {}
        self.read_block = read_block
        # chunker(task_name, nbytes) -> list of chunk sizes summing to nbytes
        self.chunker: Callable[[Any, int], list[int]] | None = None
        # short_writer(task, nbytes) -> bytes accepted by ONE write syscall of an unbuffered
        # file (quota / file-size limit / NFS short write); buffered writers retry short
        # writes themselves, which is what `chunker` models
        self.short_writer: Callable[[Any, int], int] | None = None
        # io_fault(task, op) -> errno | None : an I/O error reported by that system call
        # (fsync: the data was already handed to the file; write: nothing was written)
        self.io_fault: Callable[[Any, str], int | None] | None = None
        # slow(task, op) -> seconds | None : that system call takes so long (slow disk, NFS
        # server hiccup); the caller is alive and simply waits
        self.slow: Callable[[Any, str], float | None] | None = None
        self._ino = 0
        self._mod = 0
        self._fd = 100
        self.fds: dict[int, Any] = {}
        self.oplog: list[tuple] | None = None  # (seq, task, op, path) when enabled
        self.on_op: Callable[[str, str], None] | None = None

    # -- helpers
    def _stamp(self) -> float:
        # fine-grained mtime: virtual time plus a strictly increasing tick, so that two
        # modifications never carry the same mtime (ext4/xfs-like ns resolution)
        self._mod += 1
        return self.sim.now + self._mod * 1e-7

    def _resolve(self, p: str) -> str:
        n = 0
        while p in self.links:
            p = self.links[p]
            n += 1
            if n > 8:
                raise OSError(errno.ELOOP, "too many links", p)
        return p

    def _seam(self, op: str, path: str = "") -> None:
        self.sim.seam("fs." + op, path)
        self.sim.count("fs." + op)
        if self.oplog is not None:
            t = self.sim.cur
            self.oplog.append((self.sim.seq, t.name if t else "-", op, path))
        if self.on_op is not None:
            self.on_op(op, path)

    def _new_inode(self) -> _Inode:
        self._ino += 1
        return _Inode(self._ino, self._stamp())

    # -- os.*
    def exists(self, p: str) -> bool:
        self._seam("exists", p)
        try:
            return self._resolve(p) in self.files
        except OSError:
            return False

    def stat(self, p: str) -> StatResult:
        self._seam("stat", p)
        q = self._resolve(p)
        ino = self.files.get(q)
        if ino is None:
            raise FileNotFoundError(errno.ENOENT, "No such file or directory", p)
        return StatResult(len(ino.data), ino.mtime, ino.ino)

    def symlink(self, src: str, dst: str) -> None:
        self._seam("symlink", dst)
        self._create_fault()
        if dst in self.links or dst in self.files:
            raise FileExistsError(errno.EEXIST, "File exists", dst)
        self.links[dst] = src

    def rename(self, a: str, b: str) -> None:
        self._seam("rename", a)
        if a in self.links:
            self.files.pop(b, None)
            self.links[b] = self.links.pop(a)
        elif a in self.files:
            self.links.pop(b, None)
            self.files[b] = self.files.pop(a)
        else:
            raise FileNotFoundError(errno.ENOENT, "No such file or directory", a)

    def unlink(self, a: str) -> None:
        self._seam("unlink", a)
        if a in self.links:
            del self.links[a]
        elif a in self.files:
            del self.files[a]
        else:
            raise FileNotFoundError(errno.ENOENT, "No such file or directory", a)

    def os_open(self, p: str, flags: int) -> int:
        self._seam("open_excl" if flags & _os.O_EXCL else "open", p)
        if flags & _os.O_EXCL and flags & _os.O_CREAT:
            self._create_fault()
            if p in self.links or p in self.files:
                raise FileExistsError(errno.EEXIST, "File exists", p)
            self.files[p] = self._new_inode()
        else:
            q = self._resolve(p)
            if q not in self.files:
                if flags & _os.O_CREAT:
                    self.files[q] = self._new_inode()
                else:
                    raise FileNotFoundError(errno.ENOENT, "No such file or directory", p)
        self._fd += 1
        self.fds[self._fd] = p
        return self._fd

    def os_close(self, fd: int) -> None:
        # closing a descriptor has no effect visible to anyone else: not a yield point
        self.fds.pop(fd, None)

    def _create_fault(self) -> None:
        """A transient error of a system call that creates a directory entry (descriptor
        table full, quota, I/O error): nothing is created."""
        if self.io_fault is not None:
            en = self.io_fault(self.sim.cur, "create")
            if en:
                self.sim.count("fs.io_error@create")
                raise OSError(en, _os.strerror(en))

    def fsync(self, fd: int) -> None:
        self._seam("fsync")
        if self.slow is not None:
            d = self.slow(self.sim.cur, "fsync")
            if d:
                self.sim.count("fs.slow@fsync")
                self.sim.sleep(float(d))
        if self.io_fault is not None:
            en = self.io_fault(self.sim.cur, "fsync")
            if en:
                self.sim.count("fs.io_error@fsync")
                raise OSError(en, _os.strerror(en))

    # -- open()
    def open(self, path: str, mode: str, buffering: int = -1) -> "SimFile":
        self._seam("open", path)
        q = self._resolve(path)
        if "a" in mode or "w" in mode:
            if q not in self.files:
                self.files[q] = self._new_inode()
            if "w" in mode:
                self.files[q].data = bytearray()
                self.files[q].mtime = self._stamp()
        elif q not in self.files:
            raise FileNotFoundError(errno.ENOENT, "No such file or directory", path)
        self._fd += 1
        f = SimFile(self, self.files[q], mode, self._fd, q)
        f.unbuffered = buffering == 0
        self.fds[self._fd] = f
        return f

    # -- direct access for checkers (no yield, no seam)
    def raw(self, path: str) -> bytes:
        q = self._resolve(path)
        ino = self.files.get(q)
        return bytes(ino.data) if ino is not None else b""


class SimFile:
    def __init__(self, fs: SimFS, inode: _Inode, mode: str, fd: int, path: str) -> None:
        self.fs = fs
        self.inode = inode
        self.mode = mode
        self.fd = fd
        self.path = path
        self.closed = False
        self._wbuf = bytearray()
        self._rbuf = b""
        self._pos = 0  # file offset of the next read syscall
        self.unbuffered = False

    # writer
    def write(self, b: bytes) -> int:
        if "a" not in self.mode and "w" not in self.mode:
            raise OSError(errno.EBADF, "not writable")
        if self.unbuffered:
            # raw FileIO: one write syscall now, which may accept fewer bytes than asked
            fs = self.fs
            n = len(b)
            if fs.short_writer is not None:
                n = max(0, min(n, fs.short_writer(fs.sim.cur, n)))
                if n < len(b):
                    fs.sim.count("fs.short_write")
            fs._seam("write", "%s#0/1@0" % self.path)
            self.inode.data += bytes(b[:n])
            self.inode.mtime = fs._stamp()
            return n
        self._wbuf += b
        return len(b)

    def flush(self) -> None:
        if not self._wbuf:
            return
        data = bytes(self._wbuf)
        fs = self.fs
        t = fs.sim.cur
        sizes = fs.chunker(t, len(data)) if fs.chunker is not None else [len(data)]
        off = 0
        for i, n in enumerate(sizes):
            if n <= 0:
                continue
            fs._seam("write", "%s#%d/%d@%d" % (self.path, i, len(sizes), off))
            # O_APPEND: each write syscall lands atomically at the current end of file
            self.inode.data += data[off : off + n]
            self.inode.mtime = fs._stamp()
            off += n
            del self._wbuf[:n]
            if len(sizes) > 1:
                fs.sim.count("fs.write_chunk")
        self._wbuf = bytearray()

    def fileno(self) -> int:
        return self.fd

    def close(self) -> None:
        if self.closed:
            return
        try:
            self.flush()
        finally:
            self.closed = True
            self.fs.fds.pop(self.fd, None)

    def __enter__(self) -> "SimFile":
        return self

    def __exit__(self, *a: Any) -> None:
        self.close()

    # reader
    def seek(self, off: int, whence: int = 0) -> int:
        self._rbuf = b""
        if whence == 2:
            self.fs._seam("lseek", self.path)  # observes the current size
            off = len(self.inode.data) + off
        elif whence == 1:
            off = self.tell() + off
        self._pos = off
        return off

    def truncate(self, size: int | None = None) -> int:
        if size is None:
            size = self.tell()
        self.flush()
        self.fs._seam("truncate", self.path)
        del self.inode.data[size:]
        self.inode.mtime = self.fs._stamp()
        return size

    def tell(self) -> int:
        return self._pos - len(self._rbuf)

    def _fill(self) -> bool:
        fs = self.fs
        fs._seam("read", self.path)
        chunk = bytes(self.inode.data[self._pos : self._pos + fs.read_block])
        if not chunk:
            return False
        self._rbuf += chunk
        self._pos += len(chunk)
        return True

    def readline(self) -> bytes:
        while True:
            i = self._rbuf.find(b"\n")
            if i >= 0:
                line, self._rbuf = self._rbuf[: i + 1], self._rbuf[i + 1 :]
                return line
            if not self._fill():
                line, self._rbuf = self._rbuf, b""
                return line

    def read(self, n: int = -1) -> bytes:
        if "r" not in self.mode and "+" not in self.mode:
            raise OSError(errno.EBADF, "not readable")
        while n < 0 or len(self._rbuf) < n:
            if not self._fill():
                break
        if n < 0:
            out, self._rbuf = self._rbuf, b""
        else:
            out, self._rbuf = self._rbuf[:n], self._rbuf[n:]
        return out

    def __iter__(self) -> "SimFile":
        return self

    def __next__(self) -> bytes:
        line = self.readline()
        if not line:
            raise StopIteration
        return line
