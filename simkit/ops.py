"""Storage operations as JSON data, applied to a real BaseStorage and to ModelStorage.

An op is a dict: {"op": name, ...}.  Studies and trials are referred to by *handles*
("S0", "T3", ...) bound when the creating op succeeds; "S?"/"T?" are ids that never
existed.  An op whose handle is unbound is skipped (keeps plans valid under shrinking).
"""
from __future__ import annotations

import datetime
import json
from typing import Any

from .model import ModelError, ModelStorage, canon_trial, cf

BOGUS = 987654

STATE_FILTERS = [None, ("COMPLETE",), ("WAITING",), ("RUNNING", "WAITING"), ("PRUNED", "FAIL"), ()]


def exc_class(e: BaseException) -> str:
    from optuna.exceptions import DuplicatedStudyError, UpdateFinishedTrialError

    if isinstance(e, DuplicatedStudyError):
        return "DuplicatedStudyError"
    if isinstance(e, UpdateFinishedTrialError):
        return "UpdateFinishedTrialError"
    if isinstance(e, KeyError):
        return "KeyError"
    if isinstance(e, ValueError):
        return "ValueError"
    if isinstance(e, RuntimeError):
        return "RuntimeError"
    return type(e).__name__


def dist_from_json(s: str) -> Any:
    from optuna.distributions import json_to_distribution

    return json_to_distribution(s)


def compat_key(dist_json: str) -> Any:
    d = json.loads(dist_json)
    name = d["name"]
    a = d["attributes"]
    if name == "CategoricalDistribution":
        return [name, cf(a["choices"])]
    return [name, bool(a.get("log", False))]


def make_template(tmpl: dict) -> Any:
    """FrozenTrial from the model-form template dict."""
    from optuna.trial import FrozenTrial, TrialState

    dists = {k: dist_from_json(v) for k, v in tmpl["dists"].items()}
    vals = tmpl["values"]
    values = None if vals is None else [float(v[1]) for v in vals]

    def dt(s: Any) -> Any:
        return None if s in (None, "?") else datetime.datetime.fromisoformat(s)

    return FrozenTrial(
        number=-1,
        trial_id=-1,
        state=TrialState[tmpl["state"]],
        value=None,
        values=values,
        datetime_start=dt(tmpl.get("dt_start")),
        datetime_complete=dt(tmpl.get("dt_complete")),
        params={k: uncf(v) for k, v in tmpl["params"].items()},
        distributions=dists,
        user_attrs=uncf(tmpl["user_attrs"]),
        system_attrs=uncf(tmpl["system_attrs"]),
        intermediate_values={int(k): float(v[1]) for k, v in tmpl["intermediate"].items()},
    )


def uncf(x: Any) -> Any:
    """Inverse of cf for generated JSON-ish values."""
    if isinstance(x, tuple) and len(x) == 2 and x[0] == "f":
        return float(x[1])
    if isinstance(x, list):
        if len(x) == 2 and x[0] == "f" and isinstance(x[1], str):
            try:
                return float(x[1])
            except ValueError:
                pass
        return [uncf(v) for v in x]
    if isinstance(x, dict):
        return {k: uncf(v) for k, v in x.items()}
    return x


class Env:
    """Handle tables for one client of one backend and for the model."""

    def __init__(self) -> None:
        self.real: dict[str, int] = {}  # handle -> backend id
        self.m_of_real_s: dict[int, int] = {}  # live backend study id -> model id
        self.m_of_real_t: dict[int, int] = {}
        self.violations: list[str] = []
        # model objects created by operations whose result nobody saw (issuer crashed):
        # their backend id is learnt from the first read that shows them
        self.pending_t: tuple = ()
        self.pending_s: tuple = ()

    def bind_study(self, h: str, real: int, m: int) -> None:
        if real in self.m_of_real_s:
            self.violations.append("study id %r returned for a new study while still live" % real)
        self.real[h] = real
        self.m_of_real_s[real] = m

    def bind_trial(self, h: str, real: int, m: int) -> None:
        if real in self.m_of_real_t:
            self.violations.append("trial id %r returned for a new trial while still live" % real)
        self.real[h] = real
        self.m_of_real_t[real] = m

    def msid(self, real: int) -> int:
        return self.m_of_real_s.get(real, -1 - abs(real))

    def mtid(self, real: int) -> int:
        return self.m_of_real_t.get(real, -1 - abs(real))

    def same_trial(self, real: int, m: int) -> bool:
        """Does backend id `real` name model trial `m`?  Binds a pending model trial."""
        got = self.m_of_real_t.get(real)
        if got is not None:
            return got == m
        if m in self.pending_t:
            self.pending_t = tuple(x for x in self.pending_t if x != m)
            self.m_of_real_t[real] = m
            return True
        return False

    def same_study(self, real: int, m: int) -> bool:
        got = self.m_of_real_s.get(real)
        if got is not None:
            return got == m
        if m in self.pending_s:
            self.pending_s = tuple(x for x in self.pending_s if x != m)
            self.m_of_real_s[real] = m
            return True
        return False

    def drop_study(self, model: ModelStorage, msid: int) -> None:
        """Call *before* model.delete_study: forget bindings of the objects that die."""
        s = model.studies.get(msid)
        if s is None:
            return
        dead = set(s["trials"])
        self.m_of_real_t = {r: m for r, m in self.m_of_real_t.items() if m not in dead}
        self.m_of_real_s = {r: m for r, m in self.m_of_real_s.items() if m != msid}


def _rid(env: Env, h: str) -> int | None:
    if h.endswith("?"):
        return BOGUS
    return env.real.get(h)


def states_arg(f: Any) -> Any:
    from optuna.trial import TrialState

    return None if f is None else tuple(TrialState[s] for s in f)


def apply_real(st: Any, op: dict, env: Env) -> tuple:
    """Run op on the real storage.  Returns ("ok", canonical) | ("err", cls) | ("skip",)."""
    from optuna.study import StudyDirection
    from optuna.trial import TrialState

    k = op["op"]
    try:
        if k == "create_new_study":
            r = st.create_new_study([StudyDirection[d] for d in op["directions"]], op.get("name"))
            return ("ok", ("sid", r))
        if k in (
            "delete_study",
            "set_study_user_attr",
            "set_study_system_attr",
            "get_study_name_from_id",
            "get_study_directions",
            "get_study_user_attrs",
            "get_study_system_attrs",
            "create_new_trial",
            "get_all_trials",
            "get_n_trials",
            "get_best_trial",
            "get_trial_id_from_study_id_trial_number",
        ):
            sid = _rid(env, op["study"])
            if sid is None:
                return ("skip",)
            if k == "delete_study":
                return ("ok", st.delete_study(sid))
            if k == "set_study_user_attr":
                return ("ok", st.set_study_user_attr(sid, op["key"], uncf(op["value"])))
            if k == "set_study_system_attr":
                return ("ok", st.set_study_system_attr(sid, op["key"], uncf(op["value"])))
            if k == "get_study_name_from_id":
                return ("ok", st.get_study_name_from_id(sid))
            if k == "get_study_directions":
                return ("ok", [d.name for d in st.get_study_directions(sid)])
            if k == "get_study_user_attrs":
                return ("ok", cf(st.get_study_user_attrs(sid)))
            if k == "get_study_system_attrs":
                return ("ok", cf(st.get_study_system_attrs(sid)))
            if k == "create_new_trial":
                tmpl = op.get("template")
                r = st.create_new_trial(sid, make_template(tmpl) if tmpl else None)
                return ("ok", ("tid", r))
            if k == "get_all_trials":
                ts = st.get_all_trials(
                    sid, deepcopy=op.get("deepcopy", True), states=states_arg(op.get("states"))
                )
                return ("ok", [(t._trial_id, canon_trial(t, True)) for t in ts])
            if k == "get_n_trials":
                f = states_arg(op.get("states"))
                return ("ok", st.get_n_trials(sid, f))
            if k == "get_best_trial":
                t = st.get_best_trial(sid)
                return ("ok", (t._trial_id, canon_trial(t, True)))
            if k == "get_trial_id_from_study_id_trial_number":
                return ("ok", ("tid", st.get_trial_id_from_study_id_trial_number(sid, op["number"])))
        if k == "get_study_id_from_name":
            return ("ok", ("sid", st.get_study_id_from_name(op["name"])))
        if k == "get_all_studies":
            out = []
            for s in st.get_all_studies():
                out.append(
                    {
                        "sid": s._study_id,
                        "name": s.study_name,
                        "directions": [d.name for d in s.directions],
                        "user_attrs": cf(s.user_attrs),
                        "system_attrs": cf(s.system_attrs),
                    }
                )
            return ("ok", out)
        # trial ops
        tid = _rid(env, op["trial"])
        if tid is None:
            return ("skip",)
        if k == "set_trial_param":
            dist = dist_from_json(op["dist"])
            return ("ok", st.set_trial_param(tid, op["name"], dist.to_internal_repr(uncf(op["value"])), dist))
        if k == "set_trial_state_values":
            vals = op.get("values")
            return (
                "ok",
                st.set_trial_state_values(
                    tid, TrialState[op["state"]], None if vals is None else [float(v) for v in uncf(vals)]
                ),
            )
        if k == "set_trial_intermediate_value":
            return ("ok", st.set_trial_intermediate_value(tid, op["step"], float(uncf(op["value"]))))
        if k == "set_trial_user_attr":
            return ("ok", st.set_trial_user_attr(tid, op["key"], uncf(op["value"])))
        if k == "set_trial_system_attr":
            return ("ok", st.set_trial_system_attr(tid, op["key"], uncf(op["value"])))
        if k == "get_trial":
            t = st.get_trial(tid)
            return ("ok", (t._trial_id, canon_trial(t, True)))
        if k == "get_trial_number_from_id":
            return ("ok", st.get_trial_number_from_id(tid))
        if k == "get_trial_param":
            v = st.get_trial_param(tid, op["name"])
            return ("ok", cf(float(v)))
        if k == "get_trial_params":
            return ("ok", {a: cf(b) for a, b in sorted(st.get_trial_params(tid).items())})
        if k == "get_trial_user_attrs":
            return ("ok", cf(st.get_trial_user_attrs(tid)))
        if k == "get_trial_system_attrs":
            return ("ok", cf(st.get_trial_system_attrs(tid)))
        raise AssertionError("unknown op " + k)
    except Exception as e:  # noqa
        return ("err", exc_class(e), repr(e)[:200])


def _trial_matches(real: dict, mv: dict) -> bool:
    r = dict(real)
    ds, dc = r.pop("dt_start", None), r.pop("dt_complete", None)
    m = dict(mv)
    ms, mc = m.pop("dt_start", "?"), m.pop("dt_complete", "?")
    if r != m:
        return False
    if ms not in ("?", None) and m["has_start"] and ds != ms:
        return False
    if mc not in ("?", None) and m["has_complete"] and dc != mc:
        return False
    return True


def apply_model(model: ModelStorage, op: dict, env: Env, real_res: tuple) -> tuple:
    """Run op on the model and compare with the real result.

    Returns ("ok",) | ("skip",) | ("diff", explanation).  Binds handles on creation."""
    k = op["op"]
    if real_res[0] == "skip":
        return ("skip",)
    got_err = real_res[1] if real_res[0] == "err" else None

    def expect(value: Any) -> tuple:
        if got_err is not None:
            return ("diff", "%s: backend raised %s (%s), contract returns %r" % (k, got_err, real_res[2], value))
        if real_res[1] != value:
            return ("diff", "%s: backend returned %r, contract %r" % (k, real_res[1], value))
        return ("ok",)

    try:
        if k == "create_new_study":
            if got_err is None:
                msid = model.create_new_study(op["directions"], op.get("name"))
                env.bind_study(op["as"], real_res[1][1], msid)
                return ("ok",)
            # backend failed: would the model have failed too?
            probe = model.clone()
            msid = probe.create_new_study(op["directions"], op.get("name"))
            return ("diff", "create_new_study: backend raised %s (%s), contract creates it" % (got_err, real_res[2]))
        if "study" in op:
            sid = _rid(env, op["study"])
            msid = env.msid(sid)
            if k == "delete_study":
                model._study(msid)
                if got_err is not None:
                    return expect(None)
                env.drop_study(model, msid)
                model.delete_study(msid)
                return ("ok",)
            if k == "set_study_user_attr":
                model._study(msid)
                if got_err is not None:
                    return expect(None)
                return expect(model.set_study_user_attr(msid, op["key"], uncf(op["value"])))
            if k == "set_study_system_attr":
                model._study(msid)
                if got_err is not None:
                    return expect(None)
                return expect(model.set_study_system_attr(msid, op["key"], uncf(op["value"])))
            if k == "get_study_name_from_id":
                name = model.get_study_name_from_id(msid)
                if name.startswith("\0anon") and got_err is None:
                    return ("ok",) if isinstance(real_res[1], str) and real_res[1] else ("diff", "empty name")
                return expect(name)
            if k == "get_study_directions":
                return expect(model.get_study_directions(msid))
            if k == "get_study_user_attrs":
                return expect(model.get_study_user_attrs(msid))
            if k == "get_study_system_attrs":
                return expect(model.get_study_system_attrs(msid))
            if k == "create_new_trial":
                model._study(msid)
                if got_err is not None:
                    return expect("<new trial id>")
                mt = model.create_new_trial(msid, op.get("template"))
                env.bind_trial(op["as"], real_res[1][1], mt)
                return ("ok",)
            if k == "get_all_trials":
                f = op.get("states")
                mv = model.get_all_trials(msid, None if f is None else tuple(f))
                if got_err is not None:
                    return expect("<%d trials>" % len(mv))
                rv = real_res[1]
                if len(rv) != len(mv):
                    return ("diff", "get_all_trials(states=%r): backend numbers %r, contract %r" % (f, [t[1]["number"] for t in rv], [t["number"] for t in mv]))
                for (rid, rt), mt_ in zip(rv, mv):
                    if not _trial_matches(rt, mt_):
                        return ("diff", "get_all_trials(states=%r): trial differs: backend %r contract %r" % (f, rt, mt_))
                    if not env.same_trial(rid, model.studies[msid]["trials"][mt_["number"]]):
                        return ("diff", "get_all_trials: trial number %d carries id %r which names another object" % (mt_["number"], rid))
                return ("ok",)
            if k == "get_n_trials":
                f = op.get("states")
                return expect(model.get_n_trials(msid, None if f is None else tuple(f)))
            if k == "get_best_trial":
                nums = model.best_candidates(msid)
                if got_err is not None:
                    return expect("<best in %r>" % nums)
                rid, rt = real_res[1]
                if rt["number"] not in nums:
                    return ("diff", "get_best_trial: backend number %r, contract one of %r" % (rt["number"], nums))
                mt = model.studies[msid]["trials"][rt["number"]]
                if not _trial_matches(rt, model.view(mt)) or not env.same_trial(rid, mt):
                    return ("diff", "get_best_trial: trial differs from stored one: %r vs %r" % (rt, model.view(mt)))
                return ("ok",)
            if k == "get_trial_id_from_study_id_trial_number":
                mt = model.get_trial_id_from_study_id_trial_number(msid, op["number"])
                if got_err is not None:
                    return expect("<id>")
                if not env.same_trial(real_res[1][1], mt):
                    return ("diff", "number->id lookup returned id %r which is not trial %d of the study" % (real_res[1][1], op["number"]))
                return ("ok",)
        if k == "get_study_id_from_name":
            msid = model.get_study_id_from_name(op["name"])
            if got_err is not None:
                return expect("<id>")
            if not env.same_study(real_res[1][1], msid):
                return ("diff", "get_study_id_from_name returned %r, another study" % (real_res[1][1],))
            return ("ok",)
        if k == "get_all_studies":
            mv = model.get_all_studies()
            if got_err is not None:
                return expect("<%d studies>" % len(mv))
            rv = real_res[1]
            seen = {}
            for s in rv:
                if s["sid"] not in env.m_of_real_s:
                    for cand in [x for x in mv if x["sid"] in env.pending_s and (x["name"] == s["name"] or x["name"].startswith("\0anon"))][:1]:
                        env.same_study(s["sid"], cand["sid"])
                seen[env.msid(s["sid"])] = s
            if len(seen) != len(rv) or set(seen) != {s["sid"] for s in mv}:
                return ("diff", "get_all_studies: backend %r, contract %r" % (sorted(s["name"] for s in rv), sorted(s["name"] for s in mv)))
            for s in mv:
                r = seen[s["sid"]]
                for key in ("directions", "user_attrs", "system_attrs") + (() if s["name"].startswith("\0anon") else ("name",)):
                    if r[key] != s[key]:
                        return ("diff", "get_all_studies: %s of %r: backend %r contract %r" % (key, s["name"], r[key], s[key]))
            return ("ok",)
        # trial ops
        tid = _rid(env, op["trial"])
        mt = env.mtid(tid)
        if k == "set_trial_param":
            if got_err is not None:
                probe = model.clone()
                probe.set_trial_param(mt, op["name"], uncf(op["value"]), op["dist"], compat_key(op["dist"]))
                return expect(None)
            return expect(model.set_trial_param(mt, op["name"], uncf(op["value"]), op["dist"], compat_key(op["dist"])))
        if k == "set_trial_state_values":
            vals = op.get("values")
            vals = None if vals is None else uncf(vals)
            if got_err is not None:
                probe = model.clone()
                return expect(probe.set_trial_state_values(mt, op["state"], vals))
            return expect(model.set_trial_state_values(mt, op["state"], vals))
        if k == "set_trial_intermediate_value":
            if got_err is not None:
                model._updatable(mt)
                return expect(None)
            return expect(model.set_trial_intermediate_value(mt, op["step"], float(uncf(op["value"]))))
        if k == "set_trial_user_attr":
            if got_err is not None:
                model._updatable(mt)
                return expect(None)
            return expect(model.set_trial_user_attr(mt, op["key"], uncf(op["value"])))
        if k == "set_trial_system_attr":
            if got_err is not None:
                model._updatable(mt)
                return expect(None)
            return expect(model.set_trial_system_attr(mt, op["key"], uncf(op["value"])))
        if k == "get_trial":
            mv = model.get_trial(mt)
            if got_err is not None:
                return expect("<trial>")
            rid, rt = real_res[1]
            if rid != tid or not _trial_matches(rt, mv):
                return ("diff", "get_trial: backend %r contract %r" % (rt, mv))
            return ("ok",)
        if k == "get_trial_number_from_id":
            return expect(model.get_trial_number_from_id(mt))
        if k == "get_trial_param":
            ext = model.get_trial_param(mt, op["name"])
            if got_err is not None:
                return expect("<internal repr>")
            dist = dist_from_json(model.trials[mt]["dists"][op["name"]])
            return expect(cf(float(dist.to_internal_repr(uncf(ext)))))
        if k == "get_trial_params":
            return expect(model.get_trial_params(mt))
        if k == "get_trial_user_attrs":
            return expect(model.get_trial_user_attrs(mt))
        if k == "get_trial_system_attrs":
            return expect(model.get_trial_system_attrs(mt))
        raise AssertionError("unknown op " + k)
    except ModelError as me:
        if got_err is None:
            return ("diff", "%s: backend returned %r, contract raises %s" % (k, real_res[1], me.cls))
        if got_err == me.cls or got_err in me.alt:
            return ("ok",)
        return ("diff", "%s: backend raised %s (%s), contract raises %s" % (k, got_err, real_res[2], me.cls))


def contract_silent(model: ModelStorage, op: dict, env: Env) -> bool:
    """True when the documented contract does not say what the op does in the model's
    current state (so backends may legitimately differ and the op is not issued)."""
    k = op["op"]
    if k == "create_new_trial" and op.get("template") and op["template"].get("values") is not None:
        # a template whose number of values differs from the study's number of objectives
        # (possible here through a stale study handle whose id was re-used by SQLite)
        sid = _rid(env, op["study"])
        st = model.studies.get(env.msid(sid)) if sid is not None else None
        if st is not None and len(op["template"]["values"]) != len(st["directions"]):
            return True
    if "trial" not in op:
        return False
    tid = _rid(env, op["trial"])
    if tid is None:
        return False
    t = model.trials.get(env.mtid(tid))
    if t is None:
        return False
    if k == "set_trial_param":
        # a second set_trial_param for the same (trial, name): overwrite is not promised
        if op["name"] in t["params"]:
            return True
    if k in ("set_trial_param", "set_trial_intermediate_value", "set_trial_user_attr", "set_trial_system_attr"):
        if t["state"] == "WAITING":
            return True
    if k == "set_trial_state_values":
        st = model.studies.get(t["sid"])
        if op.get("values") is not None and st is not None and len(op["values"]) != len(st["directions"]):
            return True
        if op["state"] == "RUNNING" and op.get("values") is not None:
            return True
        if op["state"] == "COMPLETE" and op.get("values") is None:
            return True
        if op["state"] == "WAITING":
            return True
    return False
