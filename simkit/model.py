"""ModelStorage: the documented BaseStorage contract as a small executable model, plus
canonicalisation of real results so that they can be compared with the model's.

The model works on plain data.  Ids are the model's own; callers keep a bijection between
model ids and backend ids (only live uniqueness is part of the contract).
"""
from __future__ import annotations

import copy
import math
from typing import Any

FINISHED = ("COMPLETE", "PRUNED", "FAIL")


class ModelError(Exception):
    """Carries the *class name* of the documented error."""

    def __init__(self, cls: str, alt: tuple[str, ...] = ()) -> None:
        super().__init__(cls)
        self.cls = cls
        self.alt = alt  # other documented classes that are equally acceptable


def cf(x: Any) -> Any:
    """Canonical form of JSON-ish values: floats by repr so that NaN == NaN."""
    if isinstance(x, bool) or x is None or isinstance(x, (int, str)):
        return x
    if isinstance(x, float):
        if x != x:
            return ["f", "nan"]
        return ["f", repr(x)]
    if isinstance(x, (list, tuple)):
        return [cf(v) for v in x]
    if isinstance(x, dict):
        return {str(k): cf(v) for k, v in sorted(x.items(), key=lambda kv: str(kv[0]))}
    try:
        import numpy as np

        if isinstance(x, np.generic):
            return cf(x.item())
    except Exception:
        pass
    return ("obj", repr(x))


def canon_dt(d: Any) -> Any:
    return None if d is None else d.isoformat(timespec="microseconds")


def canon_trial(t: Any, with_dt: bool = False) -> dict:
    """Canonical dict of an optuna FrozenTrial (ids left out; number kept)."""
    from optuna.distributions import distribution_to_json

    d = {
        "number": t.number,
        "state": t.state.name,
        "values": None if t.values is None else [cf(float(v)) for v in t.values],
        "params": {k: cf(v) for k, v in sorted(t.params.items())},
        "dists": {k: distribution_to_json(v) for k, v in sorted(t.distributions.items())},
        "user_attrs": cf(t.user_attrs),
        "system_attrs": cf(t.system_attrs),
        "intermediate": {str(k): cf(float(v)) for k, v in sorted(t.intermediate_values.items())},
        "has_start": t.datetime_start is not None,
        "has_complete": t.datetime_complete is not None,
    }
    if with_dt:
        d["dt_start"] = canon_dt(t.datetime_start)
        d["dt_complete"] = canon_dt(t.datetime_complete)
    return d


class ModelStorage:
    def __init__(self) -> None:
        self.studies: dict[int, dict] = {}
        self.trials: dict[int, dict] = {}
        self.next_sid = 0
        self.next_tid = 0
        self.anon = 0
        self.relax_compat = False  # diagnostic variant: no distribution compatibility check

    def clone(self) -> "ModelStorage":
        m = ModelStorage.__new__(ModelStorage)
        # copy-on-write: entries are replaced (never mutated in place) by the mutators
        m.studies = dict(self.studies)
        m.trials = dict(self.trials)
        m.next_sid = self.next_sid
        m.next_tid = self.next_tid
        m.anon = self.anon
        m.relax_compat = self.relax_compat
        return m

    def key(self) -> str:
        return repr((sorted(self.studies.items()), sorted(self.trials.items()), self.next_sid, self.next_tid))

    # ------------------------------------------------------------ helpers
    def _study(self, sid: Any) -> dict:
        s = self.studies.get(sid)
        if s is None:
            raise ModelError("KeyError")
        return s

    def _trial(self, tid: Any) -> dict:
        t = self.trials.get(tid)
        if t is None:
            raise ModelError("KeyError")
        return t

    def _updatable(self, tid: Any) -> dict:
        """Returns a private (copied) trial record that may be mutated."""
        t = self._trial(tid)
        if t["state"] in FINISHED:
            raise ModelError("UpdateFinishedTrialError")
        t = dict(t)
        for k in ("params", "dists", "user_attrs", "system_attrs", "intermediate"):
            t[k] = dict(t[k])
        self.trials[tid] = t
        return t

    def _mut_study(self, sid: Any) -> dict:
        s = dict(self._study(sid))
        for k in ("user_attrs", "system_attrs", "param_dists"):
            s[k] = dict(s[k])
        s["trials"] = list(s["trials"])
        self.studies[sid] = s
        return s

    # ------------------------------------------------------------ studies
    def create_new_study(self, directions: list[str], name: str | None = None) -> int:
        if name is None:
            self.anon += 1
            name = "\0anon%d" % self.anon
        else:
            for s in self.studies.values():
                if s["name"] == name:
                    raise ModelError("DuplicatedStudyError")
        sid = self.next_sid
        self.next_sid += 1
        self.studies[sid] = {
            "name": name,
            "directions": list(directions),
            "user_attrs": {},
            "system_attrs": {},
            "trials": [],
            "param_dists": {},
        }
        return sid

    def delete_study(self, sid: int) -> None:
        s = self._study(sid)
        for tid in s["trials"]:
            del self.trials[tid]
        del self.studies[sid]

    def set_study_user_attr(self, sid: int, key: str, value: Any) -> None:
        self._mut_study(sid)["user_attrs"][key] = cf(value)

    def set_study_system_attr(self, sid: int, key: str, value: Any) -> None:
        self._mut_study(sid)["system_attrs"][key] = cf(value)

    def get_study_id_from_name(self, name: str) -> int:
        for sid, s in self.studies.items():
            if s["name"] == name:
                return sid
        raise ModelError("KeyError")

    def get_study_name_from_id(self, sid: int) -> str:
        return self._study(sid)["name"]

    def get_study_directions(self, sid: int) -> list[str]:
        return list(self._study(sid)["directions"])

    def get_study_user_attrs(self, sid: int) -> dict:
        return dict(self._study(sid)["user_attrs"])

    def get_study_system_attrs(self, sid: int) -> dict:
        return dict(self._study(sid)["system_attrs"])

    def get_all_studies(self) -> list[dict]:
        out = []
        for sid, s in self.studies.items():
            out.append(
                {
                    "sid": sid,
                    "name": s["name"],
                    "directions": list(s["directions"]),
                    "user_attrs": dict(s["user_attrs"]),
                    "system_attrs": dict(s["system_attrs"]),
                }
            )
        return out

    # ------------------------------------------------------------ trials
    def create_new_trial(self, sid: int, template: dict | None = None) -> int:
        s = self._mut_study(sid)
        tid = self.next_tid
        self.next_tid += 1
        if template is None:
            t = {
                "state": "RUNNING",
                "values": None,
                "params": {},
                "dists": {},
                "user_attrs": {},
                "system_attrs": {},
                "intermediate": {},
                "has_start": True,
                "has_complete": False,
                "dt_start": "?",
                "dt_complete": None,
            }
        else:
            t = copy.deepcopy(template)
            t.pop("number", None)
        t["number"] = len(s["trials"])
        t["sid"] = sid
        s["trials"].append(tid)
        self.trials[tid] = t
        return tid

    def set_trial_param(self, tid: int, name: str, external: Any, dist_json: str, compat_key: Any) -> None:
        """compat_key: what must be equal for two distributions to be compatible
        (class name, plus the choices for categoricals)."""
        t = self._updatable(tid)
        prev = self.studies[t["sid"]]["param_dists"].get(name)
        if prev is not None and prev != compat_key and not self.relax_compat:
            raise ModelError("ValueError")
        self._mut_study(t["sid"])["param_dists"][name] = compat_key
        t["params"][name] = cf(external)
        t["dists"][name] = dist_json

    def get_trial_id_from_study_id_trial_number(self, sid: int, number: int) -> int:
        s = self._study(sid)
        if number < 0 or number >= len(s["trials"]):
            raise ModelError("KeyError")
        return s["trials"][number]

    def get_trial_number_from_id(self, tid: int) -> int:
        return self._trial(tid)["number"]

    def get_trial_param(self, tid: int, name: str) -> Any:
        t = self._trial(tid)
        if name not in t["params"]:
            raise ModelError("KeyError")
        return t["params"][name]  # callers compare the external form

    def set_trial_state_values(self, tid: int, state: str, values: list | None = None) -> bool:
        t = self._updatable(tid)
        if state == "RUNNING" and t["state"] != "WAITING":
            return False
        t["state"] = state
        if values is not None:
            t["values"] = [cf(float(v)) for v in values]
        if state == "RUNNING":
            t["has_start"] = True
            t["dt_start"] = "?"
        if state in FINISHED:
            t["has_complete"] = True
            t["dt_complete"] = "?"
        return True

    def set_trial_intermediate_value(self, tid: int, step: int, value: float) -> None:
        self._updatable(tid)["intermediate"][str(step)] = cf(float(value))

    def set_trial_user_attr(self, tid: int, key: str, value: Any) -> None:
        self._updatable(tid)["user_attrs"][key] = cf(value)

    def set_trial_system_attr(self, tid: int, key: str, value: Any) -> None:
        self._updatable(tid)["system_attrs"][key] = cf(value)

    def view(self, tid: int) -> dict:
        t = self._trial(tid)
        return {
            "number": t["number"],
            "state": t["state"],
            "values": t["values"],
            "params": dict(sorted(t["params"].items())),
            "dists": dict(sorted(t["dists"].items())),
            "user_attrs": cf(t["user_attrs"]),
            "system_attrs": cf(t["system_attrs"]),
            "intermediate": dict(sorted(t["intermediate"].items(), key=lambda kv: int(kv[0]))),
            "has_start": t["has_start"],
            "has_complete": t["has_complete"],
            "dt_start": t.get("dt_start", "?"),
            "dt_complete": t.get("dt_complete", "?"),
        }

    def get_trial(self, tid: int) -> dict:
        return self.view(tid)

    def get_all_trials(self, sid: int, states: tuple[str, ...] | None = None) -> list[dict]:
        s = self._study(sid)
        out = []
        for tid in s["trials"]:
            if states is None or self.trials[tid]["state"] in states:
                out.append(self.view(tid))
        return out

    def get_n_trials(self, sid: int, states: tuple[str, ...] | None = None) -> int:
        return len(self.get_all_trials(sid, states))

    def best_candidates(self, sid: int) -> list[int]:
        """Numbers of all COMPLETE trials that nobody beats (ties: any is acceptable)."""
        s = self._study(sid)
        comp = [self.trials[t] for t in s["trials"] if self.trials[t]["state"] == "COMPLETE"]
        multi = len(s["directions"]) > 1
        if multi and not comp:
            raise ModelError("RuntimeError", ("ValueError",))
        if multi:
            raise ModelError("RuntimeError")
        if not comp:
            raise ModelError("ValueError")

        def val(t: dict) -> float:
            return float(t["values"][0][1])

        vals = [val(t) for t in comp]
        best = max(vals) if s["directions"][0] == "MAXIMIZE" else min(vals)
        return [t["number"] for t in comp if val(t) == best]

    def get_trial_params(self, tid: int) -> dict:
        return dict(sorted(self._trial(tid)["params"].items()))

    def get_trial_user_attrs(self, tid: int) -> dict:
        return cf(self._trial(tid)["user_attrs"])

    def get_trial_system_attrs(self, tid: int) -> dict:
        return cf(self._trial(tid)["system_attrs"])
