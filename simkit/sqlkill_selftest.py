"""Cross-check of the crash model used for SQLite in C05/C19.

The simulator models the death of a process that uses SQLite as "every later statement of
the process raises without effect, then its connections are rolled back and closed".  This
self-test validates that against the real thing: for a set of storage calls and for every
statement/commit index k of each call, (a) a *real forked child* executes the call and is
killed with os._exit() right before its k-th statement, (b) the same call is cut at the
same k in-process with the simulator's connection-drop model; a fresh RDBStorage must then
see exactly the same database state in both worlds, and that state must be the state before
the call or the state after it (all-or-nothing).
"""
from __future__ import annotations

import json
import os
import shutil
import sqlite3
import tempfile
from typing import Any


class _Killed(BaseException):
    pass


CTL = {"n": 0, "kill_at": None, "mode": "count", "dead": False, "armed": False}


def _gate() -> None:
    if not CTL["armed"]:
        return
    if CTL["dead"]:
        raise _Killed()
    CTL["n"] += 1
    if CTL["kill_at"] is not None and CTL["n"] == CTL["kill_at"]:
        if CTL["mode"] == "exit":
            os._exit(9)
        CTL["dead"] = True
        raise _Killed()


class _Cur(sqlite3.Cursor):
    def execute(self, sql: str, params: Any = ()) -> Any:  # type: ignore[override]
        _gate()
        return super().execute(sql, params)

    def executemany(self, sql: str, params: Any) -> Any:  # type: ignore[override]
        _gate()
        return super().executemany(sql, params)


class _Conn(sqlite3.Connection):
    def cursor(self, factory: Any = _Cur) -> Any:  # type: ignore[override]
        return super().cursor(factory)

    def commit(self) -> None:
        _gate()
        super().commit()


def _mk(path: str, counting: bool) -> Any:
    from optuna.storages import RDBStorage

    ca: dict[str, Any] = {"timeout": 5}
    if counting:
        ca["factory"] = _Conn
    return RDBStorage("sqlite:///" + path, engine_kwargs={"connect_args": ca}, skip_compatibility_check=True, skip_table_creation=True)


def _dump(path: str) -> str:
    from .model import canon_trial, cf

    st = _mk(path, False)
    out = []
    for s in sorted(st.get_all_studies(), key=lambda s: s._study_id):
        out.append([s._study_id, s.study_name, [d.name for d in s.directions], cf(s.user_attrs), cf(s.system_attrs), [[t._trial_id, canon_trial(t, True)] for t in st.get_all_trials(s._study_id)]])
    st.remove_session()
    st.engine.dispose()
    return json.dumps(out, sort_keys=True)


def _calls() -> dict[str, Any]:
    from optuna.distributions import CategoricalDistribution, FloatDistribution
    from optuna.study import StudyDirection
    from optuna.trial import TrialState, create_trial

    tmpl = create_trial(state=TrialState.COMPLETE, values=[1.0, float("inf")], params={"x": 0.5, "c": "b"}, distributions={"x": FloatDistribution(0, 1), "c": CategoricalDistribution(["a", "b"])}, user_attrs={"u": [1, {"k": None}]}, system_attrs={"s": 2}, intermediate_values={0: 1.0, 3: float("nan")})
    return {
        "create_new_trial(template)": lambda st: st.create_new_trial(1, tmpl),
        "create_new_trial()": lambda st: st.create_new_trial(1),
        "set_trial_state_values(COMPLETE)": lambda st: st.set_trial_state_values(1, TrialState.COMPLETE, [2.0, 3.0]),
        "set_trial_state_values(WAITING->RUNNING)": lambda st: st.set_trial_state_values(2, TrialState.RUNNING),
        "set_trial_param": lambda st: st.set_trial_param(1, "y", 0.25, FloatDistribution(0, 1)),
        "set_trial_user_attr": lambda st: st.set_trial_user_attr(1, "k", {"a": 1}),
        "set_trial_intermediate_value": lambda st: st.set_trial_intermediate_value(1, 5, 0.5),
        "create_new_study": lambda st: st.create_new_study([StudyDirection.MAXIMIZE], "new"),
        "delete_study": lambda st: st.delete_study(1),
        "set_study_user_attr": lambda st: st.set_study_user_attr(1, "k", "v"),
        "record_heartbeat": lambda st: st.record_heartbeat(1),
    }


def main(argv: list[str]) -> int:
    import optuna
    from optuna.storages import RDBStorage
    from optuna.study import StudyDirection
    from optuna.trial import TrialState, create_trial

    optuna.logging.set_verbosity(optuna.logging.CRITICAL)
    d = tempfile.mkdtemp(prefix="sqlkill-", dir="/dev/shm" if os.path.isdir("/dev/shm") else None)
    bad = 0
    total = 0
    try:
        base = os.path.join(d, "base.db")
        st = RDBStorage("sqlite:///" + base)
        sid = st.create_new_study([StudyDirection.MINIMIZE, StudyDirection.MAXIMIZE], "s")
        assert sid == 1
        st.create_new_trial(sid)
        st.create_new_trial(sid, create_trial(state=TrialState.WAITING, system_attrs={"fixed_params": {"x": 0.1}}))
        st.remove_session()
        st.engine.dispose()
        before = _dump(base)
        for name, call in _calls().items():
            # statement count and the "after" state
            p = os.path.join(d, "count.db")
            shutil.copy(base, p)
            CTL.update(n=0, kill_at=None, mode="count", dead=False)
            s = _mk(p, True)
            with s.engine.connect():
                pass  # engine initialisation is not part of the call
            CTL["armed"] = True
            call(s)
            CTL["armed"] = False
            n = CTL["n"]
            s.remove_session()
            s.engine.dispose()
            after = _dump(p)
            for k in range(1, n + 1):
                total += 1
                # (a) real process death
                pa = os.path.join(d, "real.db")
                shutil.copy(base, pa)
                pid = os.fork()
                if pid == 0:
                    try:
                        CTL.update(n=0, kill_at=k, mode="exit", dead=False)
                        sc = _mk(pa, True)
                        with sc.engine.connect():
                            pass
                        CTL["armed"] = True
                        call(sc)
                    finally:
                        os._exit(0)
                os.waitpid(pid, 0)
                real = _dump(pa)
                # (b) the simulator's connection-drop model
                pb = os.path.join(d, "sim.db")
                shutil.copy(base, pb)
                CTL.update(n=0, kill_at=k, mode="raise", dead=False)
                s = _mk(pb, True)
                with s.engine.connect():
                    pass
                CTL["armed"] = True
                try:
                    call(s)
                except _Killed:
                    pass
                # the process is dead: its connections are dropped (rollback + close)
                CTL.update(kill_at=None, dead=False, armed=False)
                try:
                    s.remove_session()
                except BaseException:
                    pass
                s.engine.dispose()
                sim = _dump(pb)
                ok = real == sim and real in (before, after)
                if not ok:
                    bad += 1
                    print("MISMATCH %s killed before statement %d/%d: real==sim %s, real in (before, after) %s" % (name, k, n, real == sim, real in (before, after)))
            print("%-42s %3d kill points: real fork+_exit == simulated connection drop, all-or-nothing" % (name, n), flush=True)
    finally:
        shutil.rmtree(d, ignore_errors=True)
    print("sqlite kill cross-check: %d kill points, %d mismatches" % (total, bad))
    return 1 if bad else 0
