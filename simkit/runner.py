"""Batch runner: seeded search over plans in parallel fresh interpreters, replay
confirmation, minimisation, known-finding classification, evidence.

Exit codes: 0 property held on everything explored (known findings are printed),
1 at least one VIOLATION line, 2 harness error (never a verdict).
"""
from __future__ import annotations

import copy
import hashlib
import importlib
import json
import os
import re
import shutil
import subprocess
import sys
import tempfile
import time
from typing import Any

ROOT = os.path.dirname(os.path.dirname(os.path.abspath(__file__)))
PY = sys.executable

CHECKS = {
    "C01": "checks.c01_contract",
    "C02": "checks.c02_terminal",
    "C03": "checks.c03_linear",
    "C04": "checks.c04_queue",
    "C05": "checks.c05_crash",
    "C06": "checks.c06_replay",
    "C07": "checks.c07_filelog",
    "C08": "checks.c08_cache",
    "C09": "checks.c09_repro",
    "C12": "checks.c12_best",
    "C14": "checks.c14_exhaustive",
    "C16": "checks.c16_pruners",
    "C17": "checks.c17_searchspace",
    "C19": "checks.c19_heartbeat",
    "C20": "checks.c20_snapshot",
}


def load_check(cid: str) -> Any:
    return importlib.import_module(CHECKS[cid])


def ensure_env() -> None:
    """Re-exec once with a fixed hash seed so that set/dict-of-str order is pinned."""
    if os.environ.get("PYTHONHASHSEED") != os.environ.get("VERIF_HASHSEED", "0"):
        env = dict(os.environ)
        env["PYTHONHASHSEED"] = os.environ.get("VERIF_HASHSEED", "0")
        os.execve(PY, [PY] + sys.argv, env)


def scratch_root() -> str:
    base = "/dev/shm" if os.path.isdir("/dev/shm") and os.access("/dev/shm", os.W_OK) else tempfile.gettempdir()
    return base


# ---------------------------------------------------------------------- known findings
def load_findings(cid: str) -> list[dict]:
    p = os.path.join(ROOT, "known_findings.json")
    if not os.path.exists(p):
        return []
    data = json.load(open(p))
    return [f for f in data.get("findings", []) if (f.get("property") == cid or cid in f.get("properties", [])) and f.get("status", "open") == "open"]


def match_finding(findings: list[dict], signature: str) -> dict | None:
    for f in findings:
        if re.search(f["signature_regex"], signature):
            return f
    return None


# ---------------------------------------------------------------------- plan paths for shrinking
def _get(plan: Any, path: tuple) -> Any:
    for k in path:
        plan = plan[k]
    return plan


def _set(plan: Any, path: tuple, value: Any) -> None:
    for k in path[:-1]:
        plan = plan[k]
    plan[path[-1]] = value


def to_replay_plan(plan: dict, result: dict) -> dict:
    p = copy.deepcopy(plan)
    p["sched"] = {"table": result.get("recorded", {}).get("table", {})}
    if "faults_recorded" in result.get("recorded", {}):
        p["faults"] = result["recorded"]["faults_recorded"]
        p["faults_mode"] = "replay"
    return p


def shrink(check: Any, plan: dict, signature_class: str, deadline: float, max_runs: int = 400) -> tuple[dict, int]:
    """Delta debugging over the lists/dicts named by check.shrink_paths(plan)."""
    runs = 0

    def still_fails(p: dict) -> bool:
        nonlocal runs
        runs += 1
        try:
            r = check.run_plan(p)
        except Exception:
            return False
        return r["status"] == "violation" and check.signature_class(r["signature"]) == signature_class

    best = plan
    progress = True
    while progress and time.time() < deadline and runs < max_runs:
        progress = False
        for path in check.shrink_paths(best):
            coll = _get(best, path)
            items = list(coll.items()) if isinstance(coll, dict) else list(coll)
            n = len(items)
            if n == 0:
                continue
            chunk = max(1, n // 2)
            while chunk >= 1 and time.time() < deadline and runs < max_runs:
                i = 0
                removed_any = False
                while i < len(items) and time.time() < deadline and runs < max_runs:
                    cand_items = items[:i] + items[i + chunk :]
                    cand = copy.deepcopy(best)
                    _set(cand, path, dict(cand_items) if isinstance(coll, dict) else cand_items)
                    if still_fails(cand):
                        best = cand
                        items = cand_items
                        removed_any = True
                        progress = True
                    else:
                        i += chunk
                if chunk == 1 and not removed_any:
                    break
                chunk = chunk // 2 if chunk > 1 else (1 if removed_any else 0)
                if chunk == 0:
                    break
    return best, runs


# ---------------------------------------------------------------------- worker
def worker_main(argv: list[str]) -> int:
    import faulthandler
    import gc

    cid, seed, tier, widx, nworkers, budget, outfile = argv[0], int(argv[1]), argv[2], int(argv[3]), int(argv[4]), float(argv[5]), argv[6]
    faulthandler.enable()
    try:
        # one task runs at a time: keep the baton-passing threads on one core (cross-core
        # wake-ups cost 3-10x here); workers are spread over the available cores
        cpus = sorted(os.sched_getaffinity(0))
        os.sched_setaffinity(0, {cpus[widx % len(cpus)]})
    except (AttributeError, OSError):
        pass
    # generous: on an overloaded machine importing optuna/sqlalchemy alone can take a minute
    faulthandler.dump_traceback_later(budget + 900, exit=True)
    check = load_check(cid)
    import optuna

    optuna.logging.set_verbosity(optuna.logging.CRITICAL)
    import warnings

    warnings.simplefilter("ignore")
    findings = load_findings(cid)
    max_runs = int(os.environ.get("VERIF_MAX_RUNS", "0")) or None
    check.gen_plan(seed, widx, tier)  # make sure everything is imported before the clock starts
    t0 = time.time()
    deadline = t0 + budget
    out: dict[str, Any] = {
        "runs": 0,
        "violations": [],
        "known": {},
        "counters": {},
        "digests": [],
        "nontrivial": 0,
        "sim_seconds": 0.0,
        "steps": 0,
        "switches": 0,
        "inconclusive": 0,
        "statuses": {},
        "samples": [],
        "determinism_checked": 0,
        "harness_errors": [],
    }
    digests = set()
    seen_sig: set[str] = set()
    gc.disable()
    # warm-up (discarded): the first execution of some code objects in an interpreter emits
    # a different number of line events (CPython 3.12), which would shift line-level decisions
    try:
        check.run_plan(check.gen_plan(seed, widx, tier))
    except Exception:
        pass
    run = widx
    while time.time() < deadline and (max_runs is None or out["runs"] < max_runs):
        plan = check.gen_plan(seed, run, tier)
        try:
            res = check.run_plan(plan)
        except Exception as e:  # harness bug: never a verdict
            import traceback

            out["harness_errors"].append({"run": run, "error": traceback.format_exc()[-3000:]})
            if len(out["harness_errors"]) > 3:
                break
            run += nworkers
            continue
        out["runs"] += 1
        out["statuses"][res["status"]] = out["statuses"].get(res["status"], 0) + 1
        for k, v in res.get("counters", {}).items():
            out["counters"][k] = out["counters"].get(k, 0) + v
        out["sim_seconds"] += res.get("sim_seconds", 0.0)
        out["steps"] += res.get("steps", 0)
        out["switches"] += res.get("switches", 0)
        if res.get("nontrivial"):
            out["nontrivial"] += 1
            digests.add(int(res["digest"][:15], 16))
        if res["status"] == "inconclusive":
            out["inconclusive"] += 1
        if len(out["samples"]) < 2 and res.get("nontrivial"):
            out["samples"].append({"run": run, "plan": check.sample_view(plan, res)})
        # determinism self-check on a sample of runs
        if out["runs"] % 50 == 1:
            res2 = check.run_plan(plan)
            out["determinism_checked"] += 1
            if res2["digest"] != res["digest"] or res2["status"] != res["status"]:
                out["harness_errors"].append({"run": run, "error": "nondeterministic: digest %s vs %s" % (res["digest"], res2["digest"])})
                break
        if res["status"] == "violation":
            sig = res["signature"]
            kf = match_finding(findings, sig)
            cls = check.signature_class(sig)
            if kf is not None:
                k = out["known"].setdefault(kf["id"], {"count": 0, "example": None})
                k["count"] += 1
                if k["example"] is None:
                    k["example"] = {"run": run, "signature": sig, "plan": to_replay_plan(plan, res)}
            elif cls not in seen_sig:
                seen_sig.add(cls)
                rp = to_replay_plan(plan, res)
                rr = check.run_plan(rp)
                if rr["status"] != "violation" or check.signature_class(rr["signature"]) != cls:
                    out["harness_errors"].append({"run": run, "error": "violation does not replay: %s -> %s %s" % (sig, rr["status"], rr.get("signature"))})
                    break
                small, nruns = shrink(check, rp, cls, min(deadline + 30, time.time() + 40))
                fin = check.run_plan(small)
                if fin["status"] != "violation" or check.signature_class(fin["signature"]) != cls:
                    # the shrunk plan does not fail every time (the system under test draws
                    # on a source of randomness outside the simulation): report the
                    # confirmed, unshrunk replay instead
                    small, fin = rp, rr
                    out.setdefault("unstable_shrinks", 0)
                    out["unstable_shrinks"] += 1
                out["violations"].append({"run": run, "signature": fin["signature"], "detail": fin.get("detail", ""), "plan": small, "shrink_runs": nruns, "orig_signature": sig})
            else:
                out.setdefault("dup_violations", 0)
                out["dup_violations"] += 1
        gc.collect() if out["runs"] % 20 == 0 else None
        run += nworkers
    out["digests"] = sorted(digests)
    out["wall"] = time.time() - t0
    json.dump(out, open(outfile, "w"))
    return 0


# ---------------------------------------------------------------------- parent
def run_check(cid: str, tier: str) -> int:
    check = load_check(cid)
    seed = int(os.environ.get("VERIF_SEED", "0"))
    nworkers = int(os.environ.get("VERIF_WORKERS", str(min(16, os.cpu_count() or 4))))
    default_budget = getattr(check, "BUDGET", {"quick": 45, "thorough": 900})[tier]
    budget = float(os.environ.get("VERIF_BUDGET_S", default_budget))
    tmp = tempfile.mkdtemp(prefix="verif-%s-" % cid, dir=scratch_root())
    t0 = time.time()
    print("check %s tier=%s VERIF_SEED=%d workers=%d budget=%.0fs" % (cid, tier, seed, nworkers, budget), flush=True)
    procs = []
    env = dict(os.environ)
    env["PYTHONHASHSEED"] = os.environ.get("VERIF_HASHSEED", "0")
    env["VERIF_SCRATCH"] = tmp
    env["PYTHONPATH"] = ROOT + os.pathsep + env.get("PYTHONPATH", "")
    for w in range(nworkers):
        outfile = os.path.join(tmp, "w%d.json" % w)
        cmd = [PY, "-c", "import sys; from simkit import runner; sys.exit(runner.worker_main(sys.argv[1:]))", cid, str(seed), tier, str(w), str(nworkers), str(budget), outfile]
        procs.append((subprocess.Popen(cmd, cwd=ROOT, env=env, stdout=open(os.path.join(tmp, "w%d.log" % w), "w"), stderr=subprocess.STDOUT), outfile, w))
    harness_errors: list[str] = []
    results = []
    hard_deadline = t0 + budget + 1000
    for p, outfile, w in procs:
        try:
            p.wait(timeout=max(1, hard_deadline - time.time()))
        except subprocess.TimeoutExpired:
            p.kill()
            harness_errors.append("worker %d timed out" % w)
            continue
        if p.returncode != 0 or not os.path.exists(outfile):
            log = open(os.path.join(tmp, "w%d.log" % w)).read()[-2000:]
            harness_errors.append("worker %d exit %s: %s" % (w, p.returncode, log))
            continue
        results.append(json.load(open(outfile)))
    agg = aggregate(results)
    for r in results:
        for he in r["harness_errors"]:
            harness_errors.append("run %s: %s" % (he["run"], he["error"]))
    wall = time.time() - t0
    findings = load_findings(cid)
    rc = 0
    replay_dir = os.environ.get("VERIF_REPLAY_DIR") or os.path.join(ROOT, "replays")
    os.makedirs(replay_dir, exist_ok=True)
    # violations
    seen = set()
    nviol = 0
    for v in agg["violations"]:
        cls = check.signature_class(v["signature"])
        if cls in seen:
            continue
        seen.add(cls)
        nviol += 1
        name = "%s-%d-%d.json" % (cid, seed, v["run"])
        path = os.path.join(replay_dir, name)
        json.dump({"property": cid, "seed": seed, "run": v["run"], "signature": v["signature"], "detail": v["detail"], "plan": v["plan"]}, open(path, "w"), indent=1)
        print("violation: %s" % v["signature"])
        print("  detail: %s" % v["detail"][:1500])
        print("VIOLATION property=%s replay=%s" % (cid, path), flush=True)
        rc = 1
    for kid, k in sorted(agg["known"].items()):
        f = [f for f in findings if f["id"] == kid][0]
        print("KNOWN-FINDING: property=%s %s (%s; seen in %d runs, e.g. %s)" % (cid, f["what"], kid, k["count"], k["example"]["signature"][:200]), flush=True)
    write_evidence(check, cid, tier, seed, wall, agg, nviol, nworkers)
    shutil.rmtree(tmp, ignore_errors=True)
    if harness_errors:
        for he in harness_errors[:5]:
            print("HARNESS-ERROR: %s" % he[:3000], flush=True)
        return 2 if rc == 0 else rc
    print("%s %s: %d runs, %d nontrivial distinct, %d violations, %d known-finding hits, %.1fs" % (cid, tier, agg["runs"], agg["distinct"], nviol, sum(k["count"] for k in agg["known"].values()), wall))
    return rc


def aggregate(results: list[dict]) -> dict:
    agg: dict[str, Any] = {"runs": 0, "violations": [], "known": {}, "counters": {}, "nontrivial": 0, "sim_seconds": 0.0, "steps": 0, "switches": 0, "inconclusive": 0, "statuses": {}, "samples": [], "determinism_checked": 0, "dup_violations": 0}
    digests: set[int] = set()
    for r in results:
        for k in ("runs", "nontrivial", "sim_seconds", "steps", "switches", "inconclusive", "determinism_checked"):
            agg[k] += r[k]
        agg["dup_violations"] += r.get("dup_violations", 0)
        for k, v in r["counters"].items():
            agg["counters"][k] = agg["counters"].get(k, 0) + v
        for k, v in r["statuses"].items():
            agg["statuses"][k] = agg["statuses"].get(k, 0) + v
        agg["violations"].extend(r["violations"])
        for kid, k in r["known"].items():
            a = agg["known"].setdefault(kid, {"count": 0, "example": k["example"]})
            a["count"] += k["count"]
        digests.update(r["digests"])
        agg["samples"].extend(r["samples"][:1])
    agg["distinct"] = len(digests)
    agg["violations"].sort(key=lambda v: v["run"])
    return agg


def write_evidence(check: Any, cid: str, tier: str, seed: int, wall: float, agg: dict, nviol: int, nworkers: int) -> None:
    info = check.EVIDENCE
    runs = agg["runs"]
    cov = {
        "evaluations": runs,
        "distinct_nontrivial": agg["distinct"],
        "rule": info["rule"],
        "samples": agg["samples"][:3] or [{"note": "no nontrivial run in this batch"}],
        "runs_per_hour": round(runs / max(wall, 1e-9) * 3600),
        "seeds": "VERIF_SEED=%d, run indices 0..%d (one PRNG stream triple per run index)" % (seed, runs),
        "simulated_seconds": round(agg["sim_seconds"], 3),
        "scheduler_steps": agg["steps"],
        "context_switches": agg["switches"],
        "faults_and_probes_fired": dict(sorted(agg["counters"].items())),
        "statuses": agg["statuses"],
        "inconclusive_runs": agg["inconclusive"],
        "determinism_rechecks": agg["determinism_checked"],
        "known_finding_hits": {k: v["count"] for k, v in agg["known"].items()},
        "components": info.get("components", {}),
        "workers": nworkers,
    }
    ev = {
        "property_id": cid,
        "tier": tier,
        "seed": seed,
        "level": check.LEVEL,
        "coverage": cov,
        "assumptions": info.get("assumptions", []),
        "wall_s": round(wall, 2),
        "violations": nviol,
    }
    evdir = os.environ.get("VERIF_EVIDENCE_DIR") or os.path.join(ROOT, "evidence")
    os.makedirs(evdir, exist_ok=True)
    json.dump(ev, open(os.path.join(evdir, "%s.json" % cid), "w"), indent=1, default=str)


def replay(path: str) -> int:
    data = json.load(open(path))
    check = load_check(data["property"])
    try:
        check.run_plan(data["plan"])  # warm-up, see worker_main
    except Exception:
        pass
    res = check.run_plan(data["plan"])
    print("replay %s: status=%s signature=%s" % (path, res["status"], res.get("signature")))
    if res.get("detail"):
        print("  detail: %s" % res["detail"][:3000])
    want = check.signature_class(data["signature"])
    if res["status"] == "violation" and check.signature_class(res["signature"]) == want:
        findings = load_findings(data["property"])
        kf = match_finding(findings, res["signature"])
        if kf is not None:
            print("KNOWN-FINDING: property=%s %s" % (data["property"], kf["what"]))
            return 0
        print("VIOLATION property=%s replay=%s" % (data["property"], path))
        return 1
    print("not reproduced (recorded signature: %s)" % data["signature"])
    return 0
