"""Seams: module-global replacement inside optuna so that the simulator owns
threads, locks, clocks, uuids, the file system of the journal backend, etc.

`install()` patches the optuna modules once per interpreter.  Every shim looks up the
*current* simulation (`seams.SIM`) at call time and falls back to the real thing when no
simulation is active, so importing this module does not change optuna's behaviour.
"""
from __future__ import annotations

import datetime as _dt
import os as _os
import random as _random
import threading as _threading
import time as _time
import types
import uuid as _uuid
from typing import Any

from . import sched

SIM: sched.Sim | None = None
FS: Any = None  # simkit.fs.SimFS of the current run (None -> real os)


def set_sim(sim: sched.Sim | None, fs: Any = None) -> None:
    global SIM, FS
    SIM = sim
    FS = fs


# ---------------------------------------------------------------- clocks
def _proc_now() -> float:
    s = SIM
    return s.current_proc().now()


class _DatetimeClassShim:
    """Stands in for the `datetime.datetime` class object (now() on the virtual clock)."""

    def now(self, tz: Any = None) -> _dt.datetime:
        if SIM is None:
            return _dt.datetime.now(tz)
        return _dt.datetime.fromtimestamp(_proc_now(), tz)

    def __call__(self, *a: Any, **k: Any) -> _dt.datetime:
        return _dt.datetime(*a, **k)

    def __getattr__(self, name: str) -> Any:
        return getattr(_dt.datetime, name)


datetime_class_shim = _DatetimeClassShim()


class _DatetimeModuleShim:
    datetime = datetime_class_shim

    def __getattr__(self, name: str) -> Any:
        return getattr(_dt, name)


datetime_module_shim = _DatetimeModuleShim()


class _TimeShim:
    def time(self) -> float:
        return _time.time() if SIM is None else _proc_now()

    def monotonic(self) -> float:
        return _time.monotonic() if SIM is None else SIM.now

    def sleep(self, d: float) -> None:
        if SIM is None:
            _time.sleep(d)
        else:
            SIM.count("sleep")
            SIM.sleep(d)

    def __getattr__(self, name: str) -> Any:
        return getattr(_time, name)


time_shim = _TimeShim()


class _UuidShim:
    def uuid4(self) -> _uuid.UUID:
        if SIM is None:
            return _uuid.uuid4()
        return SIM.current_proc().uuid4()

    def __getattr__(self, name: str) -> Any:
        return getattr(_uuid, name)


uuid_shim = _UuidShim()


class _RandomShim:
    """`random` module of _rdb/storage.py (retry back-off only)."""

    def random(self) -> float:
        if SIM is None:
            return _random.random()
        SIM.count("rdb_backoff_random")
        return 0.25

    def __getattr__(self, name: str) -> Any:
        return getattr(_random, name)


random_shim = _RandomShim()


# ---------------------------------------------------------------- threading
class _ThreadingShim:
    def Lock(self) -> Any:
        if SIM is None:
            return _threading.Lock()
        return sched.SimLock(SIM, False)

    def RLock(self) -> Any:
        if SIM is None:
            return _threading.RLock()
        return sched.SimLock(SIM, True)

    def Event(self) -> Any:
        if SIM is None:
            return _threading.Event()
        return sched.SimEvent(SIM)

    def Thread(self, *a: Any, **k: Any) -> Any:
        if SIM is None:
            return _threading.Thread(*a, **k)
        return sched.SimThread(SIM, *a, **k)

    def get_ident(self) -> int:
        s = SIM
        if s is None:
            return _threading.get_ident()
        if s.in_task():
            return s.cur.ident
        return 999

    def __getattr__(self, name: str) -> Any:
        return getattr(_threading, name)


threading_shim = _ThreadingShim()


def _SimEventFactory(*a: Any, **k: Any) -> Any:
    return threading_shim.Event()


def _SimThreadFactory(*a: Any, **k: Any) -> Any:
    return threading_shim.Thread(*a, **k)


def executor_shim(max_workers: Any = None, *a: Any, **k: Any) -> Any:
    if SIM is None:
        import concurrent.futures

        return concurrent.futures.ThreadPoolExecutor(max_workers, *a, **k)
    return sched.SimExecutor(SIM, max_workers)


def wait_shim(fs: Any, timeout: Any = None, return_when: str = "ALL_COMPLETED") -> Any:
    if SIM is None:
        import concurrent.futures

        return concurrent.futures.wait(fs, timeout=timeout, return_when=return_when)
    return sched.sim_wait(SIM, fs, timeout, return_when)


# ---------------------------------------------------------------- file system of the journal
class _OsPathShim:
    def exists(self, p: str) -> bool:
        if FS is None:
            return _os.path.exists(p)
        return FS.exists(p)

    def __getattr__(self, name: str) -> Any:
        return getattr(_os.path, name)


class _OsShim:
    path = _OsPathShim()
    O_CREAT = _os.O_CREAT
    O_EXCL = _os.O_EXCL
    O_WRONLY = _os.O_WRONLY

    def stat(self, p: str) -> Any:
        return _os.stat(p) if FS is None else FS.stat(p)

    def symlink(self, src: str, dst: str) -> None:
        return _os.symlink(src, dst) if FS is None else FS.symlink(src, dst)

    def rename(self, a: str, b: str) -> None:
        return _os.rename(a, b) if FS is None else FS.rename(a, b)

    def unlink(self, a: str) -> None:
        return _os.unlink(a) if FS is None else FS.unlink(a)

    def open(self, p: str, flags: int, mode: int = 0o777) -> int:
        return _os.open(p, flags, mode) if FS is None else FS.os_open(p, flags)

    def close(self, fd: int) -> None:
        return _os.close(fd) if FS is None else FS.os_close(fd)

    def fsync(self, fd: int) -> None:
        return _os.fsync(fd) if FS is None else FS.fsync(fd)

    def __getattr__(self, name: str) -> Any:
        return getattr(_os, name)


os_shim = _OsShim()


def open_shim(path: Any, mode: str = "r", *a: Any, **k: Any) -> Any:
    if FS is None:
        return open(path, mode, *a, **k)
    buffering = k.get("buffering", a[0] if a else -1)
    return FS.open(path, mode, buffering)


# ---------------------------------------------------------------- numpy entropy
import numpy as _np  # noqa: E402


class SimRandomState(_np.random.RandomState):
    """RandomState whose *unseeded* (re)seeding draws from the simulated process's seeded
    stream instead of OS entropy; survives copy/pickle as this class."""

    def seed(self, seed: Any = None) -> None:
        if seed is None and SIM is not None:
            seed = _entropy32()
        super().seed(seed)

    def __reduce__(self) -> Any:
        return (_rebuild_random_state, (self.get_state(legacy=False),))


def _rebuild_random_state(state: Any) -> "SimRandomState":
    r = SimRandomState(0)
    r.set_state(state)
    return r


class _NumpyRandomShim:
    """`np.random` as seen by the modules that create *unseeded* generators
    (LazyRandomState, reseed_rng): OS entropy is the one source of randomness that would
    otherwise stay outside the simulation."""

    def RandomState(self, seed: Any = None) -> Any:  # noqa: N802
        if seed is None and SIM is not None:
            seed = _entropy32()
        return SimRandomState(seed)

    def __getattr__(self, name: str) -> Any:
        return getattr(_np.random, name)


class _NumpyShim:
    def __init__(self) -> None:
        self.random = _NumpyRandomShim()

    def __getattr__(self, name: str) -> Any:
        return getattr(_np, name)


def _entropy32() -> int:
    SIM.count("entropy_request")
    return SIM.current_proc().uuid4().int & 0xFFFFFFFF


# ---------------------------------------------------------------- install
_installed = False


def install() -> None:
    global _installed
    if _installed:
        return
    _installed = True
    import optuna  # noqa
    from optuna.storages import _cached_storage, _heartbeat, _in_memory
    from optuna.storages._grpc import client as grpc_client
    from optuna.storages._grpc import servicer as grpc_servicer
    from optuna.storages._rdb import storage as rdb_storage
    from optuna.storages.journal import _file as jfile
    from optuna.storages.journal import _redis as jredis
    from optuna.storages.journal import _storage as jstorage
    from optuna.study import _optimize
    from optuna.trial import _frozen, _trial

    _in_memory.threading = threading_shim
    _in_memory.datetime = datetime_class_shim
    _in_memory.uuid = uuid_shim

    _cached_storage.threading = threading_shim

    jstorage.threading = threading_shim
    jstorage.datetime = datetime_module_shim
    jstorage.uuid = uuid_shim

    jfile.os = os_shim
    jfile.open = open_shim
    jfile.time = time_shim
    jfile.uuid = uuid_shim

    jredis.time = time_shim

    rdb_storage.time = time_shim
    rdb_storage.random = random_shim
    rdb_storage.datetime = datetime_class_shim
    rdb_storage.uuid = uuid_shim

    grpc_client.threading = threading_shim
    grpc_client.uuid = uuid_shim
    grpc_servicer.threading = threading_shim

    # protobuf (upb) map fields iterate in an order that depends on heap addresses, i.e. on
    # the allocation history of the interpreter: pin the order of the dicts of trials read
    # through the proxy (sorted by key).  The loss of the suggestion order itself is a
    # finding of C09, which installs its own plan-seeded order on top of this.
    _orig_from_proto = grpc_servicer._from_proto_trial

    def _from_proto_trial_sorted(trial: Any) -> Any:
        t = _orig_from_proto(trial)
        if SIM is not None:
            t.params = {k: t.params[k] for k in sorted(t.params)}
            t.distributions = {k: t.distributions[k] for k in sorted(t.distributions)}
            t.user_attrs = {k: t.user_attrs[k] for k in sorted(t.user_attrs)}
            t.system_attrs = {k: t.system_attrs[k] for k in sorted(t.system_attrs)}
            t.intermediate_values = {k: t.intermediate_values[k] for k in sorted(t.intermediate_values)}
        return t

    grpc_servicer._from_proto_trial = _from_proto_trial_sorted

    _heartbeat.Thread = _SimThreadFactory
    _heartbeat.Event = _SimEventFactory

    from optuna.samplers import _lazy_random_state

    _lazy_random_state.np = _NumpyShim()

    _optimize.datetime = datetime_module_shim
    _optimize.ThreadPoolExecutor = executor_shim
    _optimize.wait = wait_shim
    _trial.datetime = datetime_module_shim
    _frozen.datetime = datetime_module_shim
