"""Self-tests of the machinery (development tools, not registered checks).

  ./check selftest determinism [N] [Cxx ...]   same plan => same digest: twice in one
        interpreter, in a second fresh interpreter, and in a third one started with another
        PYTHONHASHSEED (digests are compared per run index).
  ./check selftest mutants [Cxx ...]           applies every mutant of mutants/catalogue.json
        to a scratch copy of /repo/optuna and demands that the tagged check reports a
        VIOLATION (exit 1) within the budget; prints a table.
  ./check selftest simfs [N]                   Hypothesis rule-based comparison of SimFS with
        the real file system on a temp directory.
  ./check selftest sqlite-kill                 real fork + os._exit at every SQL statement of a
        set of storage calls vs the simulator's connection-drop model (C05/C19 crash model).
"""
from __future__ import annotations

import json
import os
import subprocess
import sys
import tempfile
from typing import Any

from . import runner

ROOT = runner.ROOT


def _digests(cid: str, n: int, seed: int) -> dict[int, list]:
    check = runner.load_check(cid)
    import optuna

    optuna.logging.set_verbosity(optuna.logging.CRITICAL)
    import warnings

    warnings.simplefilter("ignore")
    out = {}
    try:
        check.run_plan(check.gen_plan(seed, 0, "quick"))  # warm-up
    except Exception:
        pass
    for i in range(n):
        plan = check.gen_plan(seed, i, "quick")
        r = check.run_plan(plan)
        out[i] = [r["digest"], r["status"], r.get("signature")]
    return out


def child_main(argv: list[str]) -> int:
    cid, n, seed, outfile = argv[0], int(argv[1]), int(argv[2]), argv[3]
    json.dump(_digests(cid, n, seed), open(outfile, "w"))
    return 0


def determinism(argv: list[str]) -> int:
    n = int(argv[0]) if argv and argv[0].isdigit() else 25
    cids = [a for a in argv if a.startswith("C")] or sorted(runner.CHECKS)
    seed = int(os.environ.get("VERIF_SEED", "0"))
    bad = 0
    for cid in cids:
        base = {str(k): v for k, v in _digests(cid, n, seed).items()}
        again = {str(k): v for k, v in _digests(cid, n, seed).items()}
        results = {"same-interpreter": again}
        for label, hs in (("fresh-interpreter", "0"), ("other-hashseed", "4242")):
            with tempfile.TemporaryDirectory() as d:
                out = os.path.join(d, "o.json")
                env = dict(os.environ, PYTHONHASHSEED=hs, PYTHONPATH=ROOT + os.pathsep + os.environ.get("PYTHONPATH", ""))
                cmd = [sys.executable, "-c", "import sys; from simkit import selftest; sys.exit(selftest.child_main(sys.argv[1:]))", cid, str(n), str(seed), out]
                p = subprocess.run(cmd, cwd=ROOT, env=env, capture_output=True, text=True, timeout=3600)
                if p.returncode != 0:
                    print("%s %s: child failed: %s" % (cid, label, p.stderr[-800:]))
                    bad += 1
                    continue
                results[label] = json.load(open(out))
        for label, res in results.items():
            diff = [k for k in base if res.get(k) != base[k]]
            print("%s determinism %-18s %d/%d identical%s" % (cid, label, len(base) - len(diff), len(base), ("  DIFFERENT run indices: %s" % diff[:10]) if diff else ""), flush=True)
            if diff:
                bad += 1
    return 1 if bad else 0


def mutants(argv: list[str]) -> int:
    cat = json.load(open(os.path.join(ROOT, "mutants", "catalogue.json")))
    only = [a for a in argv if a.startswith("C")]
    missed = 0
    for m in cat["mutants"]:
        if only and m["check"] not in only:
            continue
        args = [os.path.join(ROOT, "tools", "mut.py"), m["check"], str(m.get("budget", 40))]
        for e in m["edits"]:
            args += [e["file"], e["old"], e["new"]]
        p = subprocess.run(args, capture_output=True, text=True)
        caught = p.returncode == 1 and "VIOLATION" in p.stdout
        expect = m.get("expect", "caught")
        ok = True if expect == "either" else caught == (expect == "caught")
        sig = next((l for l in p.stdout.splitlines() if l.startswith("violation:")), "")
        print("%-4s %-52s %s %s" % (m["check"], m["name"][:52], "caught " if caught else ("MISSED " if expect == "caught" else "quiet  "), sig[:110]), flush=True)
        if not ok:
            missed += 1
    return 1 if missed else 0


def simfs(argv: list[str]) -> int:
    from . import simfs_selftest

    return simfs_selftest.main(argv)


def main(argv: list[str]) -> int:
    if not argv:
        print(__doc__)
        return 2
    if argv[0] == "determinism":
        return determinism(argv[1:])
    if argv[0] == "mutants":
        return mutants(argv[1:])
    if argv[0] == "simfs":
        return simfs(argv[1:])
    if argv[0] == "sqlite-kill":
        from . import sqlkill_selftest

        return sqlkill_selftest.main(argv[1:])
    print(__doc__)
    return 2
