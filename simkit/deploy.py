"""Deployments: how simulated processes obtain storage objects on a shared medium.

kinds: mem | jf-sym | jf-open | jr | jr-cluster | rdb | cached | grpc(<kind>)
One storage object per simulated process (threads of a process share it), except that
`mem` is a single object in a single process.
"""
from __future__ import annotations

import os
import shutil
import warnings
from typing import Any

from . import fs as fsmod
from . import seams

JOURNAL_PATH = "/sim/journal.log"


class Deployment:
    def __init__(self, sim: Any, kind: str, cfg: dict | None = None) -> None:
        self.sim = sim
        self.kind = kind
        self.cfg = cfg or {}
        self.fs: fsmod.SimFS | None = None
        self.storages: dict[str, Any] = {}
        self._mem: Any = None
        self.scratch: str | None = None
        self.inner_kind = kind[5:-1] if kind.startswith("grpc(") else kind
        self._closers: list[Any] = []
        self.redis: Any = None
        self.server: Any = None
        seams.install()
        from optuna.storages.journal import _storage as _js

        _js.SNAPSHOT_INTERVAL = int(self.cfg.get("snapshot_interval", 100))
        if self.inner_kind.startswith("jf"):
            self.fs = fsmod.SimFS(sim, read_block=self.cfg.get("read_block", 8192))
            if self.cfg.get("chunked_write"):
                import random as _r

                crng = _r.Random(self.cfg.get("chunk_seed", 7))

                def chunker(task: Any, n: int) -> list[int]:
                    if n <= 1 or crng.random() < 0.3:
                        return [n]
                    cuts = sorted(crng.sample(range(1, n), min(n - 1, crng.choice([1, 1, 2, 3]))))
                    return [b - a for a, b in zip([0] + cuts, cuts + [n])]

                self.fs.chunker = chunker
        seams.set_sim(sim, self.fs)
        if self.inner_kind in ("rdb", "cached"):
            from . import sqlseam

            self.db = sqlseam.SimDB(sim, self.cfg)
            self._closers.append(self.db.close)
        if self.inner_kind.startswith("jr"):
            from . import redis_stub

            self.redis = redis_stub.SimRedis(sim)
            stalls = [dict(f) for f in self.cfg.get("redis_stalls", [])]
            if stalls:
                # a writer is held up between reserving a log number (INCR) and filling it
                # (SET) - cluster mode - or before its append script is sent
                nset = [0]

                def stall(task: Any, op: str, key: str, phase: str) -> Any:
                    if phase != "pre" or op not in ("set", "eval") or (op == "set" and ":log:" not in key):
                        return None
                    nset[0] += 1
                    for f in stalls:
                        if not f.get("fired") and f["nth"] == nset[0] - 1:
                            f["fired"] = True
                            return float(f["dur"])
                    return None

                self.redis.fault = stall
        if kind.startswith("grpc("):
            from . import net

            self.server = net.SimServer(sim, self, self.cfg)

    # ------------------------------------------------------------------ raw backends
    def _new_inner(self, proc: Any) -> Any:
        k = self.inner_kind
        if k == "mem":
            from optuna.storages import InMemoryStorage

            if self._mem is None:
                self._mem = InMemoryStorage()
            return self._mem
        if k in ("jf-sym", "jf-open"):
            from optuna.storages import JournalStorage
            from optuna.storages.journal import JournalFileBackend, JournalFileOpenLock, JournalFileSymlinkLock

            grace = self.cfg.get("grace_period", 30)
            with warnings.catch_warnings():
                warnings.simplefilter("ignore")
                lock = (JournalFileOpenLock if k == "jf-open" else JournalFileSymlinkLock)(JOURNAL_PATH, grace_period=grace)
            return JournalStorage(JournalFileBackend(JOURNAL_PATH, lock_obj=lock))
        if k in ("jr", "jr-cluster"):
            from . import redis_stub

            return redis_stub.make_journal_storage(self.redis, cluster=(k == "jr-cluster"))
        if k in ("rdb", "cached"):
            st = self.db.new_storage(proc, self.cfg)
            if k == "cached":
                from optuna.storages import _CachedStorage

                st = _CachedStorage(st)
            return st
        raise ValueError(k)

    def client(self, proc: Any) -> Any:
        """Storage object used by all tasks of simulated process `proc`."""
        st = self.storages.get(proc.name)
        if st is not None:
            return st
        if self.kind.startswith("grpc("):
            st = self.server.new_client(proc)
        elif self.cfg.get("pickled_clients") and self.inner_kind.startswith(("jf", "jr")) and self.storages:
            # the way multiprocessing hands a storage to a worker process: a pickled copy of
            # the parent's object (JournalStorage.__setstate__ must give it its own identity)
            import pickle

            first = self.storages[sorted(self.storages)[0]]
            redis = getattr(first._backend, "_redis", None)
            st = pickle.loads(pickle.dumps(first))
            if redis is not None:
                st._backend._redis = redis  # the unpickled backend would reconnect by URL
            self.sim.count("pickled_client")
        else:
            st = self._new_inner(proc)
        self.storages[proc.name] = st
        return st

    def new_client_in_task(self, proc: Any) -> Any:
        """Drop the storage object of `proc` (if any) and open a new one (re-open)."""
        self.storages.pop(proc.name, None)
        return self.client(proc)

    def observer(self) -> Any:
        """A fresh storage object on the same durable medium for the checker's own reads
        (never shared with a simulated client).  Used from the harness thread."""
        k = self.inner_kind
        if k == "mem":
            return self._new_inner(None)
        if k in ("rdb", "cached"):
            return self.db.new_storage(None, self.cfg, raw=True)
        return self._new_inner(None)

    def close(self) -> None:
        try:
            self.sim.teardown()
        except Exception:
            pass
        for c in self._closers:
            try:
                c()
            except Exception:
                pass
        seams.set_sim(None, None)
