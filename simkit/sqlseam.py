"""SQL seam: the real sqlite3 engine on a real scratch file; every statement and commit is
a yield point / crash point; SQLITE_BUSY is retried on the virtual clock; the database
clock (`func.now()`, `current_timestamp`) is the simulated process's clock.
"""
from __future__ import annotations

import datetime
import os
import shutil
import sqlite3
import tempfile
from typing import Any

from . import seams

_compiled = False
_pool: list = []  # RDBStorage objects reused across runs (all on the same path)
_template: str | None = None
_counter = 0


def scratch_dir() -> str:
    d = os.environ.get("VERIF_SCRATCH")
    if d and os.path.isdir(d):
        return d
    base = "/dev/shm" if os.path.isdir("/dev/shm") and os.access("/dev/shm", os.W_OK) else tempfile.gettempdir()
    d = os.path.join(base, "verif-adhoc-%d" % os.getpid())
    os.makedirs(d, exist_ok=True)
    os.environ["VERIF_SCRATCH"] = d
    import atexit

    atexit.register(shutil.rmtree, d, True)
    return d


def _install_compilers() -> None:
    global _compiled
    if _compiled:
        return
    _compiled = True
    from sqlalchemy.ext.compiler import compiles
    from sqlalchemy.sql import functions

    @compiles(functions.now, "sqlite")
    def _now(el: Any, comp: Any, **kw: Any) -> str:
        return "sim_now()"

    @compiles(functions.current_timestamp, "sqlite")
    def _ct(el: Any, comp: Any, **kw: Any) -> str:
        return "sim_now()"


class SimCursor(sqlite3.Cursor):
    def execute(self, sql: str, params: Any = ()) -> Any:  # type: ignore[override]
        conn: SimConnection = self.connection  # type: ignore[assignment]
        return conn._guarded("sql.exec", sql, lambda: sqlite3.Cursor.execute(self, sql, params))

    def executemany(self, sql: str, params: Any) -> Any:  # type: ignore[override]
        conn: SimConnection = self.connection  # type: ignore[assignment]
        params = list(params)
        return conn._guarded("sql.exec", sql, lambda: sqlite3.Cursor.executemany(self, sql, params))


class SimConnection(sqlite3.Connection):
    def __init__(self, *a: Any, **k: Any) -> None:
        super().__init__(*a, **k)
        sim = seams.SIM
        self._sim = sim
        self._proc = sim.current_proc() if sim is not None else None
        self._busy_timeout = 60.0
        self._dead = False
        db = SimDB.current
        if db is not None:
            self._busy_timeout = db.busy_timeout
            db.connections.append(self)
        if self._proc is not None:
            self._proc.resources.append(self.force_close)
        self.create_function("sim_now", 0, self._now)

    def _now(self) -> str:
        # the database clock is ONE clock (the server's; for SQLite the host's): it does not
        # follow the wall-clock skew of the simulated worker process that asks
        sim = seams.SIM
        if sim is None:
            t = datetime.datetime.now()
        else:
            t = datetime.datetime.fromtimestamp(sim.now)
        return t.strftime("%Y-%m-%d %H:%M:%S.%f")

    def cursor(self, factory: Any = SimCursor) -> Any:  # type: ignore[override]
        return super().cursor(factory)

    def _guarded(self, kind: str, sql: str, fn: Any) -> Any:
        sim = seams.SIM
        if sim is None or not sim.in_task():
            return fn()
        waited = 0.0
        word = sql.split(None, 1)[0].upper() if sql else ""
        while True:
            sim.seam(kind, word)
            db = SimDB.current
            if db is not None and db.fault is not None and db.fault(sim.cur, kind, word):
                # the statement / commit fails without being executed (I/O error, lost
                # connection): the caller's transaction must be rolled back as a whole
                sim.count("sql.io_error@" + ("commit" if kind == "sql.commit" else "exec"))
                raise sqlite3.OperationalError("disk I/O error (simulated)")
            try:
                r = fn()
                sim.count("sql." + (word if kind == "sql.exec" else "COMMIT"))
                return r
            except sqlite3.OperationalError as e:
                if "locked" not in str(e) and "busy" not in str(e):
                    raise
                sim.count("sql_busy")
                if waited >= self._busy_timeout:
                    sim.count("sql_busy_timeout")
                    raise
                # the C busy handler sleeps and retries; here on the virtual clock
                delay = min(0.001 * (2 ** min(int(waited * 20), 6)) + 0.001, 0.1)
                waited += delay
                sim.sleep(delay)

    def commit(self) -> None:
        self._guarded("sql.commit", "COMMIT", lambda: sqlite3.Connection.commit(self))

    def force_close(self) -> None:
        """What process death does to a connection: the open transaction is rolled back
        (by the next opener's hot-journal recovery) and the descriptors go away."""
        if self._dead:
            return
        self._dead = True
        try:
            sqlite3.Connection.rollback(self)
        except Exception:
            pass
        try:
            sqlite3.Connection.close(self)
        except Exception:
            pass


class SimDB:
    current: "SimDB | None" = None

    def __init__(self, sim: Any, cfg: dict) -> None:
        global _counter
        _install_compilers()
        self.sim = sim
        self.busy_timeout = float(cfg.get("busy_timeout", 60.0))
        self.connections: list[SimConnection] = []
        self.storages: list[Any] = []
        # fault(task, "sql.exec"|"sql.commit", first word of the statement) -> bool
        self.fault: Any = None
        _counter += 1
        # one fixed path per interpreter: RDBStorage objects (engines with their compiled
        # statement caches) are reused across runs, the file is replaced by the template
        self.path = os.path.join(scratch_dir(), "run-%d.db" % os.getpid())
        for suffix in ("-journal", "-wal", "-shm"):
            try:
                os.remove(self.path + suffix)
            except OSError:
                pass
        shutil.copyfile(template_db(), self.path)
        self._next = 0
        SimDB.current = self

    def url(self) -> str:
        return "sqlite:///" + self.path

    def new_storage(self, proc: Any, cfg: dict, raw: bool = False, **kw: Any) -> Any:
        from optuna.storages import RDBStorage

        args: dict[str, Any] = {}
        if not raw:
            for k in ("heartbeat_interval", "grace_period", "failed_trial_callback"):
                if cfg.get(k) is not None:
                    args[k] = cfg[k]
        args.update(kw)
        if self._next < len(_pool):
            st = _pool[self._next]
            st.heartbeat_interval = args.get("heartbeat_interval")
            st.grace_period = args.get("grace_period")
            st.failed_trial_callback = args.get("failed_trial_callback")
        else:
            self.sim.atomic_depth += 1  # engine set-up is not part of the simulated execution
            try:
                st = self._make(RDBStorage, args)
            finally:
                self.sim.atomic_depth -= 1
            _pool.append(st)
        self._next += 1
        self.storages.append(st)
        return st

    def _make(self, RDBStorage: Any, args: dict) -> Any:
        if True:
            st = RDBStorage(
                self.url(),
                engine_kwargs={"connect_args": {"factory": SimConnection, "timeout": 0, "check_same_thread": False}},
                skip_compatibility_check=True,
                skip_table_creation=True,
                **args,
            )
            # run SQLAlchemy's first-connect initialisation now, outside the simulation
            with st.engine.connect():
                pass
            st.engine.dispose()  # later connections are created by (and belong to) tasks
            return st

    def close(self) -> None:
        for st in self.storages:
            try:
                st.remove_session()
            except Exception:
                pass
            try:
                st.engine.dispose()
            except Exception:
                pass
        for c in self.connections:
            c.force_close()
        self.connections = []
        self.storages = []
        if SimDB.current is self:
            SimDB.current = None


def template_db() -> str:
    """An empty optuna schema, created once per interpreter (alembic is slow)."""
    global _template
    if _template is not None and os.path.exists(_template):
        return _template
    from optuna.storages import RDBStorage

    path = os.path.join(scratch_dir(), "template-%d.db" % os.getpid())
    if os.path.exists(path):
        os.remove(path)
    sim, fs = seams.SIM, seams.FS
    seams.set_sim(None, None)
    try:
        st = RDBStorage("sqlite:///" + path)
        st.remove_session()
        st.engine.dispose()
    finally:
        seams.set_sim(sim, fs)
    _template = path
    return path
