"""Generators of storage-level operation histories (shared by C01, C03, C05, C06, C08).

The generator keeps a rough picture of the state only to bias generation towards the
interesting places; correctness never depends on it (the oracle is the model).
Things about which the documented contract is silent are *not* generated (DESIGN.md C01).
"""
from __future__ import annotations

import json
import random
from typing import Any

from .model import cf

DISTS = {
    "x": '{"name": "FloatDistribution", "attributes": {"step": null, "low": 0.0, "high": 1.0, "log": false}}',
    "y": '{"name": "FloatDistribution", "attributes": {"step": null, "low": 1e-05, "high": 100.0, "log": true}}',
    "z": '{"name": "IntDistribution", "attributes": {"log": false, "step": 2, "low": -4, "high": 10}}',
    "c": '{"name": "CategoricalDistribution", "attributes": {"choices": ["a", "b", null, 2.5]}}',
    "q": '{"name": "FloatDistribution", "attributes": {"step": 0.25, "low": -1.0, "high": 1.0, "log": false}}',
}
# incompatible alternatives for the same names (other class / other log flag / other choices)
DISTS_BAD = {
    "x": '{"name": "IntDistribution", "attributes": {"log": false, "step": 1, "low": 0, "high": 1}}',
    "y": '{"name": "FloatDistribution", "attributes": {"step": null, "low": 1e-05, "high": 100.0, "log": false}}',
    "z": '{"name": "IntDistribution", "attributes": {"log": true, "step": 1, "low": 1, "high": 10}}',
    "c": '{"name": "CategoricalDistribution", "attributes": {"choices": ["a", "b"]}}',
    "q": '{"name": "CategoricalDistribution", "attributes": {"choices": [0.25, 0.5]}}',
}
# compatible but different range (must be accepted)
DISTS_ALT = {
    "x": '{"name": "FloatDistribution", "attributes": {"step": null, "low": -5.0, "high": 5.0, "log": false}}',
    "z": '{"name": "IntDistribution", "attributes": {"log": false, "step": 1, "low": 0, "high": 100}}',
}
TEMPLATE_DISTS = {
    "tx": '{"name": "FloatDistribution", "attributes": {"step": null, "low": -10.0, "high": 10.0, "log": false}}',
    "tz": '{"name": "IntDistribution", "attributes": {"log": false, "step": 1, "low": 0, "high": 7}}',
    "tc": '{"name": "CategoricalDistribution", "attributes": {"choices": ["p", "q", "r"]}}',
}


def sample_value(rng: random.Random, dist_json: str) -> Any:
    d = json.loads(dist_json)
    a = d["attributes"]
    if d["name"] == "CategoricalDistribution":
        return rng.choice(a["choices"])
    if d["name"] == "IntDistribution":
        n = (a["high"] - a["low"]) // a["step"]
        return a["low"] + a["step"] * rng.randint(0, n)
    if a.get("step"):
        n = int(round((a["high"] - a["low"]) / a["step"]))
        return a["low"] + a["step"] * rng.randint(0, n)
    if a.get("log"):
        import math

        return math.exp(rng.uniform(math.log(a["low"]), math.log(a["high"])))
    r = rng.random()
    if r < 0.1:
        return a["low"]
    if r < 0.2:
        return a["high"]
    return rng.uniform(a["low"], a["high"])


EXTREME_FLOATS = [1e39, -2e39, 3.5e38, 1.7976931348623157e308, -1.7976931348623157e308, 5e-324, 1e-310]


class OpGen:
    def __init__(
        self,
        rng: random.Random,
        max_studies: int = 3,
        max_trials: int = 6,
        client: str = "",
        deletes: bool = True,
        getters: bool = True,
        unknown_ids: bool = True,
        templates: bool = True,
        multi_objective: bool = True,
        anon_studies: bool = True,
    ) -> None:
        self.rng = rng
        self.max_studies = max_studies
        self.max_trials = max_trials
        self.client = client
        self.deletes = deletes
        self.getters = getters
        self.unknown_ids = unknown_ids
        self.templates = templates
        self.multi_objective = multi_objective
        self.anon_studies = anon_studies
        self.n = 0  # unique value counter
        self.ns = 0
        self.nt = 0
        # rough state
        self.studies: dict[str, dict] = {}  # handle -> {name, nobj, trials:[handles], live}
        self.trials: dict[str, dict] = {}  # handle -> {study, state, params:set}
        self.names_used: list[str] = []

    # -- values
    def uniq(self) -> int:
        self.n += 1
        return self.n

    def attr_value(self) -> Any:
        r = self.rng.random()
        u = self.uniq()
        c = self.client
        if r < 0.3:
            return "%sv%d" % (c, u)
        if r < 0.45:
            return u
        if r < 0.55:
            return u + 0.5
        if r < 0.65:
            return [u, "é漢", None, True]
        if r < 0.8:
            return {"k": u, "nested": {"l": [1, 2.5, {"d": "%s%d" % (c, u)}]}}
        if r < 0.85:
            return None
        if r < 0.9:
            return ""
        return {"u": u, "e": {}, "l": []}

    def objective_value(self) -> float:
        r = self.rng.random()
        if r < 0.05:
            # finite but beyond float32 / near the double limits (an exploding loss)
            return self.rng.choice(EXTREME_FLOATS)
        if r < 0.12:
            return float("inf")
        if r < 0.24:
            return float("-inf")
        if r < 0.5:
            return float(self.rng.choice([-1, 0, 0, 1, 1]))
        return self.uniq() + self.rng.choice([0.0, 0.5, 0.125])

    def intermediate_value(self) -> float:
        # non-finite values are frequent on purpose: overwriting one non-finite value by
        # another one (they share the NULL column in SQL) must be seen
        r = self.rng.random()
        if r < 0.06:
            return self.rng.choice(EXTREME_FLOATS)
        if r < 0.15:
            return float("nan")
        if r < 0.3:
            return float("inf")
        if r < 0.45:
            return float("-inf")
        return self.uniq() * 1.5

    # -- handles
    def live_studies(self) -> list[str]:
        return [h for h, s in self.studies.items() if s["live"]]

    def pick_study(self, stale_ok: bool = True) -> str | None:
        live = self.live_studies()
        r = self.rng.random()
        if self.unknown_ids and r < 0.04:
            return "S?"
        dead = [h for h, s in self.studies.items() if not s["live"]]
        if stale_ok and dead and r < 0.12:
            return self.rng.choice(dead)
        if not live:
            return None
        return self.rng.choice(live)

    def pick_trial(self, states: tuple[str, ...] | None = None, stale_ok: bool = True) -> str | None:
        r = self.rng.random()
        if self.unknown_ids and r < 0.03:
            return "T?"
        cands = []
        for h, t in self.trials.items():
            live = self.studies[t["study"]]["live"]
            if not live:
                if stale_ok and r < 0.1:
                    cands.append(h)
                continue
            if states is None or t["state"] in states:
                cands.append(h)
        if not cands:
            return None
        return self.rng.choice(cands)

    def template(self, nobj: int) -> dict:
        rng = self.rng
        state = rng.choice(["COMPLETE", "COMPLETE", "WAITING", "PRUNED", "FAIL", "RUNNING"])
        names = [n for n in TEMPLATE_DISTS if rng.random() < 0.5]
        dists = {n: TEMPLATE_DISTS[n] for n in names}
        params = {n: cf(sample_value(rng, dists[n])) for n in names}
        values = None
        if state == "COMPLETE" or (state == "PRUNED" and rng.random() < 0.5):
            values = [cf(self.objective_value()) for _ in range(nobj)]
        elif state in ("RUNNING", "WAITING") and rng.random() < 0.35:
            # an unfinished template may carry provisional values; telling the trial later
            # overwrites them (writes overwrite by key)
            values = [cf(self.objective_value()) for _ in range(nobj)]
        inter = {}
        if rng.random() < 0.6:
            for step in rng.sample(range(0, 12), rng.randint(1, 3)):
                inter[str(step)] = cf(self.intermediate_value())
        us = 100000 + self.uniq() * 7919 % 899999
        start = None if state == "WAITING" else "2024-02-03T04:05:06.%06d" % us
        comp = "2024-02-03T05:06:07.%06d" % ((us * 3) % 1000000) if state in ("COMPLETE", "PRUNED", "FAIL") else None
        return {
            "state": state,
            "values": values,
            "params": params,
            "dists": dists,
            "user_attrs": {"tu%d" % i: cf(self.attr_value()) for i in range(rng.randint(0, 2))},
            "system_attrs": {"ts%d" % i: cf(self.attr_value()) for i in range(rng.randint(0, 2))},
            "intermediate": inter,
            "has_start": start is not None,
            "has_complete": comp is not None,
            "dt_start": start,
            "dt_complete": comp,
        }

    # -- ops
    def create_study(self) -> dict:
        rng = self.rng
        h = "%sS%d" % (self.client, self.ns)
        self.ns += 1
        nobj = rng.choice([1, 1, 1, 2, 3]) if self.multi_objective else 1
        dirs = [rng.choice(["MINIMIZE", "MAXIMIZE"]) for _ in range(nobj)]
        r = rng.random()
        if self.names_used and r < 0.35:
            name = rng.choice(self.names_used)  # duplicate or re-create after delete
        elif self.anon_studies and r < 0.45:
            name = None
        else:
            name = "study-%s%d" % (self.client, self.uniq())
        if name is not None and name not in self.names_used:
            self.names_used.append(name)
        dup = any(s["live"] and s["name"] == name and name is not None for s in self.studies.values())
        self.studies[h] = {"name": name, "nobj": nobj, "trials": [], "live": not dup, "pnames": {}}
        return {"op": "create_new_study", "directions": dirs, "name": name, "as": h}

    def create_trial(self, sh: str) -> dict:
        h = "%sT%d" % (self.client, self.nt)
        self.nt += 1
        op: dict = {"op": "create_new_trial", "study": sh, "as": h}
        st = self.studies.get(sh)
        state = "RUNNING"
        if self.templates and st is not None and self.rng.random() < 0.45:
            op["template"] = self.template(st["nobj"])
            state = op["template"]["state"]
        if st is not None:
            self.trials[h] = {"study": sh, "state": state, "params": set()}
            if st["live"]:
                st["trials"].append(h)
        return op

    def next_op(self) -> dict:
        rng = self.rng
        live = self.live_studies()
        ntr = sum(1 for t in self.trials.values() if self.studies[t["study"]]["live"])
        r = rng.random()
        if not live or (len(live) < self.max_studies and r < 0.08) or (len(self.studies) < 2 and r < 0.2):
            return self.create_study()
        if ntr < self.max_trials and r < 0.3:
            sh = self.pick_study()
            if sh is not None:
                return self.create_trial(sh)
        r = rng.random()
        if self.deletes and r < 0.04:
            sh = self.pick_study()
            if sh is not None:
                if sh in self.studies:
                    self.studies[sh]["live"] = False
                return {"op": "delete_study", "study": sh}
        if r < 0.1:
            sh = self.pick_study()
            if sh is not None:
                k = rng.choice(["set_study_user_attr", "set_study_system_attr"])
                return {"op": k, "study": sh, "key": rng.choice(["a", "b", "kü"]), "value": cf(self.attr_value())}
        if r < 0.62:
            op = self.trial_write()
            if op is not None:
                return op
        if self.getters:
            return self.getter()
        op = self.trial_write()
        return op if op is not None else self.create_study()

    def trial_write(self) -> dict | None:
        rng = self.rng
        r = rng.random()
        # finished trials are targeted on purpose (every setter must reject), WAITING
        # trials only by state changes (the contract is silent about other writes).
        if r < 0.30:
            th = self.pick_trial(("RUNNING", "COMPLETE", "PRUNED", "FAIL"))
            if th is None:
                return None
            if th == "T?" or th not in self.trials:
                return {"op": "set_trial_param", "trial": th, "name": "x", "dist": DISTS["x"], "value": cf(0.5)}
            t = self.trials[th]
            st = self.studies[t["study"]]
            free = [n for n in DISTS if n not in t["params"]]
            if not free:
                return None
            name = rng.choice(free)
            known = st["pnames"].get(name)
            dist = DISTS[name]
            if known is not None:
                rr = rng.random()
                if rr < 0.25:
                    dist = DISTS_BAD[name]
                elif rr < 0.5 and name in DISTS_ALT:
                    dist = DISTS_ALT[name]
            if t["state"] == "RUNNING" and st["live"] and (known is None or dist != DISTS_BAD[name]):
                t["params"].add(name)
                st["pnames"][name] = True
            return {"op": "set_trial_param", "trial": th, "name": name, "dist": dist, "value": cf(sample_value(rng, dist))}
        if r < 0.55:
            th = self.pick_trial()
            if th is None:
                return None
            t = self.trials.get(th)
            cur = t["state"] if t else "RUNNING"
            nobj = self.studies[t["study"]]["nobj"] if t else 1
            if cur == "WAITING":
                state = rng.choice(["RUNNING", "RUNNING", "RUNNING", "FAIL", "COMPLETE"])
            elif cur == "RUNNING":
                state = rng.choice(["COMPLETE", "COMPLETE", "PRUNED", "FAIL", "RUNNING"])
            else:
                state = rng.choice(["COMPLETE", "RUNNING", "FAIL", "PRUNED"])
            values = None
            if state == "COMPLETE" or (state == "PRUNED" and rng.random() < 0.5):
                values = [cf(self.objective_value()) for _ in range(nobj)]
            if t and cur in ("WAITING", "RUNNING") and self.studies[t["study"]]["live"]:
                if not (state == "RUNNING" and cur == "RUNNING"):
                    t["state"] = state
            return {"op": "set_trial_state_values", "trial": th, "state": state, "values": values}
        th = self.pick_trial(("RUNNING", "COMPLETE", "PRUNED", "FAIL"))
        if th is None:
            return None
        if r < 0.7:
            return {"op": "set_trial_intermediate_value", "trial": th, "step": rng.choice([0, 0, 1, 1, 2, 5]), "value": cf(self.intermediate_value())}
        k = "set_trial_user_attr" if r < 0.85 else "set_trial_system_attr"
        return {"op": k, "trial": th, "key": rng.choice(["a", "b", "kü"]), "value": cf(self.attr_value())}

    def getter(self) -> dict:
        rng = self.rng
        r = rng.random()
        if r < 0.5:
            th = self.pick_trial()
            if th is not None:
                k = rng.choice(
                    ["get_trial", "get_trial", "get_trial_number_from_id", "get_trial_param", "get_trial_params", "get_trial_user_attrs", "get_trial_system_attrs"]
                )
                op = {"op": k, "trial": th}
                if k == "get_trial_param":
                    t = self.trials.get(th)
                    names = sorted(t["params"]) if t and t["params"] else []
                    op["name"] = rng.choice(names) if names and rng.random() < 0.8 else "nope"
                return op
        if r < 0.6:
            return {"op": "get_all_studies"}
        if r < 0.68:
            names = self.names_used or ["nope"]
            return {"op": "get_study_id_from_name", "name": rng.choice(names + ["nope"])}
        sh = self.pick_study()
        if sh is None:
            return {"op": "get_all_studies"}
        k = rng.choice(
            [
                "get_all_trials",
                "get_all_trials",
                "get_n_trials",
                "get_best_trial",
                "get_trial_id_from_study_id_trial_number",
                "get_study_name_from_id",
                "get_study_directions",
                "get_study_user_attrs",
                "get_study_system_attrs",
            ]
        )
        op: dict = {"op": k, "study": sh}
        if k in ("get_all_trials", "get_n_trials"):
            from .ops import STATE_FILTERS

            f = rng.choice(STATE_FILTERS)
            op["states"] = None if f is None else list(f)
            if k == "get_all_trials":
                op["deepcopy"] = rng.random() < 0.5
        if k == "get_trial_id_from_study_id_trial_number":
            op["number"] = rng.randint(0, self.max_trials)
        return op


def sweep_ops(env_real: dict, studies: list[str], trials: list[str], light: bool = False, medium: bool = False) -> list[dict]:
    """All getters over all bound handles (the 'complete readable state')."""
    from .ops import STATE_FILTERS

    out: list[dict] = [{"op": "get_all_studies"}]
    if light:
        for sh in studies:
            out.append({"op": "get_all_trials", "study": sh, "states": None, "deepcopy": False})
            out.append({"op": "get_best_trial", "study": sh})
            for n in range(0, 8):
                out.append({"op": "get_trial_id_from_study_id_trial_number", "study": sh, "number": n})
        for th in trials:
            out.append({"op": "get_trial", "trial": th})
        return out
    for sh in studies:
        for k in (
            "get_study_name_from_id",
            "get_study_directions",
            "get_study_user_attrs",
            "get_study_system_attrs",
            "get_best_trial",
        ):
            out.append({"op": k, "study": sh})
        for i, f in enumerate(STATE_FILTERS):
            if medium and i in (2, 4, 5):
                continue
            for dc in ((True, False) if not medium else ((i % 2 == 0),)):
                out.append({"op": "get_all_trials", "study": sh, "states": None if f is None else list(f), "deepcopy": dc})
            out.append({"op": "get_n_trials", "study": sh, "states": None if f is None else list(f)})
        for n in range(0, 8 if not medium else 5):
            out.append({"op": "get_trial_id_from_study_id_trial_number", "study": sh, "number": n})
    for th in trials:
        for k in ("get_trial", "get_trial_number_from_id", "get_trial_params", "get_trial_user_attrs", "get_trial_system_attrs"):
            out.append({"op": k, "trial": th})
    return out
