"""SimRedis: the five commands used by JournalRedisBackend; each command is atomic and a
yield point.  `eval` recognises the one Lua script of append_logs."""
from __future__ import annotations

from typing import Any


class SimRedis:
    def __init__(self, sim: Any) -> None:
        self.sim = sim
        self.data: dict[str, bytes] = {}
        # fault(task, op, key, phase) -> None | float | "error"
        #   phase "pre":  float = the command is held up for that many (virtual) seconds before
        #                 it reaches the server (stalled client, slow network); "error" = the
        #                 connection fails before the command is sent (not executed)
        #   phase "post": "error" = the command was executed, the reply is lost
        self.fault: Any = None

    def _seam(self, op: str, key: str = "") -> None:
        self.sim.seam("redis." + op, key)
        self.sim.count("redis." + op)
        self._fault(op, key, "pre")

    def _fault(self, op: str, key: str, phase: str) -> None:
        if self.fault is None or not self.sim.in_task():
            return
        f = self.fault(self.sim.cur, op, key, phase)
        if f is None:
            return
        if f == "error":
            import redis

            class SimRedisConnectionError(redis.exceptions.ConnectionError):
                def __repr__(self) -> str:
                    return "SimRedisConnectionError(%r)" % (self.args[0] if self.args else "",)

            self.sim.count("redis.connection_error_" + phase)
            raise SimRedisConnectionError("connection lost %s (simulated)" % ("before the command was sent" if phase == "pre" else "after the command was executed: reply lost"))
        self.sim.count("redis.stall")
        self.sim.sleep(float(f))

    @staticmethod
    def _b(v: Any) -> bytes:
        if isinstance(v, bytes):
            return v
        if isinstance(v, str):
            return v.encode()
        return str(v).encode()

    def get(self, key: str) -> bytes | None:
        self._seam("get", key)
        return self.data.get(key)

    def set(self, key: str, value: Any) -> bool:
        self._seam("set", key)
        self.data[key] = self._b(value)
        self._fault("set", key, "post")
        return True

    def setnx(self, key: str, value: Any) -> bool:
        self._seam("setnx", key)
        if key in self.data:
            return False
        self.data[key] = self._b(value)
        return True

    def incr(self, key: str, amount: int = 1) -> int:
        self._seam("incr", key)
        v = int(self.data.get(key, b"0")) + amount
        self.data[key] = str(v).encode()
        self._fault("incr", key, "post")
        return v

    def eval(self, script: str, numkeys: int, *args: Any) -> Any:
        assert "incr" in script and "set" in script and numkeys == 0, script
        prefix, payload = args
        self._seam("eval", prefix)
        k = "%s:log_number" % prefix
        i = int(self.data.get(k, b"0")) + 1
        self.data[k] = str(i).encode()
        self.data["%s:log:%d" % (prefix, i)] = self._b(payload)
        self._fault("eval", prefix, "post")
        return None


def make_backend(redis: SimRedis, cluster: bool = False, prefix: str = "p") -> Any:
    from optuna.storages.journal import JournalRedisBackend

    b = object.__new__(JournalRedisBackend)
    b._url = "redis://sim"
    b._redis = redis
    b._use_cluster = cluster
    b._prefix = prefix
    return b


def make_journal_storage(redis: SimRedis, cluster: bool = False) -> Any:
    from optuna.storages import JournalStorage

    return JournalStorage(make_backend(redis, cluster))
