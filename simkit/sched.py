"""Deterministic scheduler: baton-passing real threads, virtual clock, processes, crashes.

One task runs at a time.  A task gives the baton back at *yield points*: every seam call
(locks, file system, SQL, redis, rpc, sleep ...) and every traced source line of the
configured target files.  At each yield point the Chooser decides whether another task
runs next.  All decisions come either from one seeded PRNG (search mode, recorded) or
from a recorded decision table (replay mode; missing entry = keep running).
"""
from __future__ import annotations

import hashlib
import math
import random
import sys
import threading
from typing import Any, Callable

_real_get_ident = threading.get_ident


def _new_baton():
    """Binary semaphore, initially unavailable (raw lock: much cheaper than Semaphore)."""
    import _thread

    lk = _thread.allocate_lock()
    lk.acquire()
    return lk


# ---------------------------------------------------------------------- line events
# Line-level pre-emption points come from sys.monitoring (PEP 669, CPython >= 3.12): LINE
# events are enabled *per code object* of the traced files only, so code outside them (e.g.
# SQLAlchemy) runs at full speed.  sys.settrace is the fallback (VERIF_TRACE=settrace).
import os as _os

_MON = getattr(sys, "monitoring", None) if _os.environ.get("VERIF_TRACE", "monitoring") != "settrace" else None
_TOOL = 3
_ACTIVE: "Sim | None" = None  # the simulation whose tasks receive line events
_instrumented: dict[Any, bool] = {}  # code object -> LINE events currently enabled
_mon_ready = False


def _codes_of(suffixes: tuple[str, ...]) -> list[Any]:
    import types

    out: list[Any] = []
    seen: set[int] = set()

    def walk(co: Any) -> None:
        if id(co) in seen:
            return
        seen.add(id(co))
        out.append(co)
        for c in co.co_consts:
            if isinstance(c, types.CodeType):
                walk(c)

    for mod in list(sys.modules.values()):
        f = getattr(mod, "__file__", None)
        if not f or not f.endswith(suffixes):
            continue
        for obj in list(vars(mod).values()):
            fn = getattr(obj, "__func__", obj)
            if isinstance(fn, types.FunctionType) and fn.__code__.co_filename == f:
                walk(fn.__code__)
            elif isinstance(obj, type) and getattr(obj, "__module__", None) == mod.__name__:
                for v in list(vars(obj).values()):
                    v = getattr(v, "__func__", v)
                    if isinstance(v, property):
                        for g in (v.fget, v.fset, v.fdel):
                            if g is not None and hasattr(g, "__code__"):
                                walk(g.__code__)
                    elif isinstance(v, types.FunctionType) and v.__code__.co_filename == f:
                        walk(v.__code__)
                    elif hasattr(v, "__wrapped__") and hasattr(v.__wrapped__, "__code__"):
                        walk(v.__wrapped__.__code__)
    return out


def _on_line(code: Any, line: int) -> Any:
    sim = _ACTIVE
    if sim is not None:
        sim.cur_line = (code, line)
        sim._line_event()
    return None


def _set_monitoring(suffixes: tuple[str, ...]) -> None:
    """Enable LINE events exactly for the code objects of the files in `suffixes`."""
    global _mon_ready
    if not _mon_ready:
        _MON.use_tool_id(_TOOL, "simkit")
        _MON.register_callback(_TOOL, _MON.events.LINE, _on_line)
        _mon_ready = True
    want = {c: True for c in _codes_of(suffixes)} if suffixes else {}
    for c in list(_instrumented):
        if c not in want:
            _MON.set_local_events(_TOOL, c, 0)
            del _instrumented[c]
    for c in want:
        if c not in _instrumented:
            _MON.set_local_events(_TOOL, c, _MON.events.LINE)
            _instrumented[c] = True


class SimKilled(BaseException):
    """Raised inside tasks of a crashed process (kill -9 model: seams stop having effects)."""


class SimDeadlock(Exception):
    pass


_prev_unraisable = sys.unraisablehook


def _unraisable(u: Any) -> None:
    # a generator of a killed process that is finalised while the zombie unwinds: its
    # cleanup raises SimKilled as every later step of that process does; nothing to report
    if isinstance(u.exc_value, SimKilled):
        return
    _prev_unraisable(u)


sys.unraisablehook = _unraisable




class HarnessError(Exception):
    pass


class Proc:
    def __init__(self, sim: "Sim", name: str, index: int, skew: float = 0.0) -> None:
        self.sim = sim
        self.name = name
        self.index = index
        self.skew = skew
        self.dead = False
        self.tasks: list[Task] = []
        self._uuid_n = 0
        self._ident_n = 0
        self.resources: list[Any] = []  # things the harness must close on crash

    def uuid4(self):
        import uuid

        self._uuid_n += 1
        h = hashlib.md5(
            ("%s/%s/%d" % (self.sim.uuid_salt, self.name, self._uuid_n)).encode()
        ).digest()
        return uuid.UUID(bytes=h, version=4)

    def now(self) -> float:
        return self.sim.now + self.skew


class Task:
    def __init__(self, sim: "Sim", proc: Proc, name: str, fn: Callable[[], Any]) -> None:
        self.sim = sim
        self.proc = proc
        self.name = name
        self.fn = fn
        self.sem = _new_baton()
        self.done = False
        self.started = False
        self.blocked: Callable[[], bool] | None = None
        self.blocked_why = ""
        self.wake: float | None = None
        self.exc: BaseException | None = None
        self.result: Any = None
        self.nyield = 0  # per-task yield-point counter (decision key)
        self.nseam = 0  # per-task seam-call counter (fault key)
        self.killed = False
        self.daemon = False  # daemon tasks do not keep sim.run() going (server pools, heartbeats)
        proc._ident_n += 1
        # like real thread idents, unique within a process only: the first thread of every
        # (forked) process typically has the very same ident
        self.ident = 1000 + proc._ident_n
        self.thread = threading.Thread(target=self._run, daemon=True, name="sim-" + name)
        self.real_ident: int | None = None
        self.on_done: list[Callable[[], None]] = []

    def _run(self) -> None:
        self.real_ident = _real_get_ident()
        self.sem.acquire()
        sim = self.sim
        try:
            if self.proc.dead:
                raise SimKilled()
            if sim.trace_suffixes and _MON is None:
                sys.settrace(sim._trace)
            self.result = self.fn()
        except SimKilled as e:
            self.killed = True
            self.exc = e
        except BaseException as e:  # noqa
            self.exc = e
        finally:
            sys.settrace(None)
            self.done = True
            for cb in self.on_done:
                try:
                    cb()
                except BaseException:
                    pass
            sim._main_sem.release()


class Chooser:
    """Search mode draws from rng and records; replay mode reads the table."""

    def __init__(
        self,
        rng: random.Random | None,
        table: dict[str, str] | None = None,
        p_line: float = 0.02,
        p_seam: float = 0.2,
    ) -> None:
        self.rng = rng
        self.replay = rng is None
        self.table: dict[str, str] = dict(table or {})
        self.recorded: dict[str, str] = {}
        self.p_line = p_line
        self.p_seam = p_seam
        self._gap = self._draw_gap() if rng is not None else 0
        # PCT-style policy (search mode only): tasks get random priorities, the highest
        # priority runnable task runs, at d random change points the running task is demoted
        self.pct = False
        self.change_points: set[int] = set()
        self.prio: dict[str, float] = {}
        self._nyield = 0

    def enable_pct(self, depth: int, length: int) -> None:
        self.pct = True
        self.change_points = {self.rng.randrange(max(1, length)) for _ in range(depth)}

    def priority(self, name: str) -> float:
        p = self.prio.get(name)
        if p is None:
            p = self.prio[name] = 1.0 + self.rng.random()
        return p

    def pct_step(self, cur: "Task", cands_fn: Any) -> "Task | None":
        """Returns the task to switch to at this yield point, or None."""
        self._nyield += 1
        if self._nyield in self.change_points:
            self.prio[cur.name] = -float(self._nyield)  # below everything assigned so far
        cands = cands_fn()
        if not cands:
            return None
        best = max(cands, key=lambda t: self.priority(t.name))
        if self.priority(best.name) > self.priority(cur.name):
            return best
        return None

    def pct_pick(self, cands: list["Task"]) -> "Task":
        return max(cands, key=lambda t: self.priority(t.name))

    def _draw_gap(self) -> int:
        p = self.p_line
        if p <= 0:
            return 1 << 60
        if p >= 1:
            return 1
        u = self.rng.random()
        return 1 + int(math.log(1.0 - u) / math.log(1.0 - p))

    def want_switch(self, is_line: bool) -> bool:
        """Search mode only: does the running task get pre-empted at this yield point?"""
        if is_line:
            self._gap -= 1
            if self._gap <= 0:
                self._gap = self._draw_gap()
                return True
            return False
        return self.rng.random() < self.p_seam

    def pick(self, cands: list["Task"]) -> "Task":
        return cands[self.rng.randrange(len(cands))] if len(cands) > 1 else cands[0]


class Sim:
    def __init__(
        self,
        chooser: Chooser,
        trace_suffixes: tuple[str, ...] = (),
        max_steps: int = 200000,
        early_wake_budget: float = 1.0,
        uuid_salt: str = "0",
        t0: float = 1_700_000_000.0,
        tick: float = 0.0,
    ) -> None:
        self.chooser = chooser
        self.trace_suffixes = tuple(trace_suffixes)
        self.max_steps = max_steps
        self.early_wake_budget = early_wake_budget
        self.early_wake_max = 0.05
        self.uuid_salt = uuid_salt
        self.now = t0
        self.t0 = t0
        # every seam call takes `tick` seconds of virtual time (0 = time only advances when
        # nothing is runnable); a few microseconds make clock reads of one call differ
        self.tick = tick
        self.seq = 0  # global event sequence number
        self.switches = 0
        self.line_events = 0
        self.seam_events = 0
        self.tasks: list[Task] = []
        self.procs: list[Proc] = []
        self.cur: Task | None = None
        self.log: list[Any] = []
        self.digest = hashlib.blake2b(digest_size=16)
        self._main_sem = _new_baton()
        self._code_cache: dict[Any, bool] = {}
        if _MON is not None:
            global _ACTIVE
            _set_monitoring(self.trace_suffixes)
            _ACTIVE = self if self.trace_suffixes else None
        self.counters: dict[str, int] = {}
        self.harness_proc = self.proc("harness")
        self.fault_table: dict[str, Any] = {}
        self.fault_hook: Callable[[Task, str, str], Any] | None = None
        # line_fault(task) -> BaseException | None, asked at every line event of the traced
        # files: an asynchronous exception (KeyboardInterrupt from a signal handler) that
        # lands in the running task right there
        self.line_fault: Callable[[Task], Any] | None = None
        self.cur_line: Any = None  # (code object, line number) of the line event being handled
        self.pending_crashes: list[Proc] = []
        self.running = False
        self.step_hooks: list[Callable[[], None]] = []
        self.atomic_depth = 0
        self._stamp = 0
        self.capped = False
        self.max_lines = max_steps * 50
        self.nforced = 0

    # ------------------------------------------------------------------ bookkeeping
    def count(self, key: str, n: int = 1) -> None:
        self.counters[key] = self.counters.get(key, 0) + n

    def note(self, *ev: Any) -> None:
        """Record an event in the run log / digest (never draws randomness)."""
        self.digest.update(repr(ev).encode())
        self.digest.update(b"\n")
        if len(self.log) < 20000:
            self.log.append(ev)

    def stamp(self) -> int:
        """Strictly increasing time stamp for invoke/return events of recorded histories."""
        self._stamp += 1
        return self._stamp

    def hexdigest(self) -> str:
        return self.digest.hexdigest()

    def proc(self, name: str, skew: float = 0.0) -> Proc:
        p = Proc(self, name, len(self.procs), skew)
        self.procs.append(p)
        return p

    def current_proc(self) -> Proc:
        t = self.cur
        return t.proc if t is not None else self.harness_proc

    def in_task(self) -> bool:
        t = self.cur
        return t is not None and t.real_ident == _real_get_ident()

    def spawn(self, proc: Proc, name: str, fn: Callable[[], Any]) -> Task:
        t = Task(self, proc, name, fn)
        proc.tasks.append(t)
        self.tasks.append(t)
        t.thread.start()
        t.started = True
        return t

    # ------------------------------------------------------------------ tracing
    def _trace(self, frame, event, arg):
        code = frame.f_code
        hit = self._code_cache.get(code)
        if hit is None:
            hit = code.co_filename.endswith(self.trace_suffixes)
            self._code_cache[code] = hit
        return self._line if hit else None

    def _line(self, frame, event, arg):
        if event == "line":
            self.cur_line = (frame.f_code, frame.f_lineno)
            self._line_event()
        return self._line

    def _line_event(self) -> None:
        if True:
            t = self.cur
            if t is not None and not self.atomic_depth and t.real_ident == _real_get_ident():
                self.line_events += 1
                t.nyield += 1
                if t.proc.dead:
                    raise SimKilled()
                if self.line_fault is not None:
                    exc = self.line_fault(t)
                    if exc is not None:
                        raise exc
                if self.line_events > self.max_lines:
                    self._cap()
                ch = self.chooser
                if ch.replay:
                    tgt = ch.table.get("%s:%d" % (t.name, t.nyield))
                    if tgt is not None:
                        self._switch_to_named(t, tgt)
                elif ch.pct:
                    ch._nyield += 1
                    if ch._nyield in ch.change_points:
                        ch._nyield -= 1
                        tgt2 = ch.pct_step(t, lambda: self._candidates(t))
                        if tgt2 is not None:
                            ch.recorded["%s:%d" % (t.name, t.nyield)] = tgt2.name
                            self._handoff(t, tgt2)
                elif ch.want_switch(True):
                    self._switch_random(t)

    def _cap(self) -> None:
        """Step budget exhausted: stop the whole run (reported as 'stepcap')."""
        self.capped = True
        for p in self.procs:
            p.dead = True
        raise SimKilled()

    class _Atomic:
        def __init__(self, sim: "Sim") -> None:
            self.sim = sim

        def __enter__(self) -> None:
            self.sim.atomic_depth += 1

        def __exit__(self, *a: Any) -> None:
            self.sim.atomic_depth -= 1

    def atomic(self) -> "Sim._Atomic":
        """Harness code inside a task: no pre-emption and no seam yields inside."""
        return Sim._Atomic(self)

    # ------------------------------------------------------------------ yield points
    def seam(self, kind: str, detail: str = "") -> None:
        """A seam call by the running task: yield point + crash point.

        Must be called *before* the seam's effect is performed.  Zombies raise.
        """
        t = self.cur
        if t is None or t.real_ident != _real_get_ident():
            return  # harness thread outside the simulation: no scheduling
        if t.proc.dead:
            raise SimKilled()
        if self.atomic_depth:
            return
        t.nseam += 1
        t.nyield += 1
        self.seam_events += 1
        self.seq += 1
        if self.tick:
            self.now += self.tick
        if self.seq > self.max_steps:
            self._cap()
        if self.fault_hook is not None:
            self.fault_hook(t, kind, detail)
            if t.proc.dead:
                raise SimKilled()
        ch = self.chooser
        if ch.replay:
            tgt = ch.table.get("%s:%d" % (t.name, t.nyield))
            if tgt is not None:
                self._switch_to_named(t, tgt)
        elif ch.pct:
            tgt2 = ch.pct_step(t, lambda: self._candidates(t))
            if tgt2 is not None:
                ch.recorded["%s:%d" % (t.name, t.nyield)] = tgt2.name
                self._handoff(t, tgt2)
        elif ch.want_switch(False):
            self._switch_random(t)
        if t.proc.dead:
            raise SimKilled()

    def _candidates(self, exclude: Task | None) -> list[Task]:
        now = self.now
        out = []
        for t in self.tasks:
            if t.done or t is exclude or t.proc.dead:
                continue
            if t.blocked is not None:
                if not t.blocked() and not (t.wake is not None and t.wake <= now):
                    continue
            elif t.wake is not None and t.wake > now:
                # only short sleeps (back-off loops) may be cut short, and only within a total
                # budget: a runnable task is never overtaken by more than early_wake_max at once
                if t.wake - now > min(self.early_wake_budget, self.early_wake_max):
                    continue  # else: early-wakeable sleeper
            out.append(t)
        return out

    def _switch_random(self, t: Task) -> None:
        cands = self._candidates(t)
        if not cands:
            return
        tgt = self.chooser.pick(cands)
        self.chooser.recorded["%s:%d" % (t.name, t.nyield)] = tgt.name
        self._handoff(t, tgt)

    def _switch_to_named(self, t: Task, name: str) -> None:
        for c in self._candidates(t):
            if c.name == name:
                self.chooser.recorded["%s:%d" % (t.name, t.nyield)] = name
                self._handoff(t, c)
                return

    def _handoff(self, t: Task, tgt: Task) -> None:
        """Running task t parks (still runnable); scheduler thread resumes tgt."""
        self.switches += 1
        self.digest.update(("%s:%d>%s\n" % (t.name, t.nyield, tgt.name)).encode())
        self._next = tgt
        self._park(t)

    def _park(self, t: Task) -> None:
        self._main_sem.release()
        t.sem.acquire()
        if t.proc.dead:
            raise SimKilled()

    def block_until(self, pred: Callable[[], bool], why: str, timeout: float | None = None) -> bool:
        """Block the running task until pred() holds (or virtual timeout). Returns pred()."""
        t = self.cur
        if t is None or t.real_ident != _real_get_ident():
            if pred():
                return True
            raise HarnessError("harness thread would block on " + why)
        if t.proc.dead:
            raise SimKilled()
        if pred():
            return True
        deadline = None if timeout is None else self.now + timeout
        self.count("block:" + why)
        while True:
            t.blocked = pred
            t.blocked_why = why
            t.wake = deadline
            self._next = None
            try:
                self._park(t)
            finally:
                t.blocked = None
                t.wake = None
            if pred():
                return True
            if deadline is not None and self.now >= deadline:
                return False

    def sleep(self, d: float) -> None:
        t = self.cur
        if t is None or t.real_ident != _real_get_ident():
            self.now += max(d, 0.0)
            return
        if t.proc.dead:
            raise SimKilled()
        t.nyield += 1
        self.seq += 1
        if self.seq > self.max_steps:
            self._cap()
        if d <= 0:
            return
        t.wake = self.now + d
        self._next = None
        try:
            self._park(t)
        finally:
            t.wake = None

    # ------------------------------------------------------------------ crash
    def crash(self, proc: Proc) -> None:
        """kill -9 of a simulated process.  Callable from the harness thread between
        steps, or from inside a fault hook / another task (deferred to the scheduler)."""
        if proc.dead:
            return
        proc.dead = True
        self.count("crash")
        self.note("crash", proc.name)
        if self.running:
            self.pending_crashes.append(proc)
        else:
            self._reap(proc)

    def _reap(self, proc: Proc) -> None:
        for t in list(proc.tasks):
            guard = 0
            while not t.done:
                guard += 1
                if guard > 10000:
                    raise HarnessError("zombie task does not die: " + t.name)
                self.cur = t
                t.sem.release()
                self._main_sem.acquire()
            self.cur = None
        for r in proc.resources:
            try:
                r()
            except Exception:
                pass
        proc.resources = []

    # ------------------------------------------------------------------ main loop
    def run(self) -> str:
        """Run until all tasks are done.  Returns 'ok' | 'deadlock' | 'stepcap'."""
        self.running = True
        self._next = None
        status = "ok"
        ch = self.chooser
        try:
            while True:
                if self.pending_crashes:
                    procs, self.pending_crashes = self.pending_crashes, []
                    for p in procs:
                        self._reap(p)
                    self._next = None
                tgt = self._next
                self._next = None
                key_used = False
                if tgt is None or tgt.done or tgt.proc.dead:
                    key_used = True
                    live = [t for t in self.tasks if not t.done and not t.proc.dead]
                    if not [t for t in live if not t.daemon]:
                        break
                    cands = self._candidates(None)
                    ready = [t for t in cands if t.blocked is not None or t.wake is None or t.wake <= self.now]
                    key = "!%d" % self.nforced
                    if not cands:
                        # nothing runnable: jump the clock to the earliest timed wake-up
                        timed = [t for t in live if t.wake is not None]
                        if not timed:
                            status = "deadlock"
                            self.deadlock_info = [(t.name, t.blocked_why) for t in live]
                            break
                        self.now = min(t.wake for t in timed)
                        self.count("clock_jump")
                        continue
                    self.nforced += 1
                    if ch.replay:
                        name = ch.table.get(key)
                        tgt = None
                        if name is not None:
                            for c in cands:
                                if c.name == name:
                                    tgt = c
                                    ch.recorded[key] = name
                                    break
                        if tgt is None:
                            tgt = ready[0] if ready else cands[0]
                    else:
                        # prefer ready tasks; choose a sleeper early only sometimes
                        pool = ready if (ready and ch.rng.random() < 0.85) else cands
                        tgt = ch.pct_pick(pool) if ch.pct else ch.pick(pool)
                        default = ready[0] if ready else cands[0]
                        if tgt is not default:
                            ch.recorded[key] = tgt.name
                if tgt.blocked is None and tgt.wake is not None and tgt.wake > self.now:
                    # early wake of a sleeper: the others were "slow" meanwhile
                    self.early_wake_budget -= tgt.wake - self.now
                    self.now = tgt.wake
                    self.count("early_wake")
                self.cur = tgt
                self.seq += 1
                if self.seq > self.max_steps or self.capped:
                    self.capped = True
                    break
                self.digest.update(("r:%s\n" % tgt.name).encode()) if key_used else None
                tgt.sem.release()
                if not self._main_sem.acquire(True, 120):
                    raise HarnessError("task %s did not yield within 60 s of real time (stuck on a real lock?)" % tgt.name)
                for h in self.step_hooks:
                    h()
        finally:
            self.running = False
            self.cur = None
        if self.capped:
            status = "stepcap"
        if status != "ok":
            self.teardown()
        return status

    def teardown(self) -> None:
        """Kill every remaining task so that no thread outlives the run."""
        global _ACTIVE
        if _ACTIVE is self:
            _ACTIVE = None
        self.running = False
        for p in self.procs:
            if any(not t.done for t in p.tasks):
                p.dead = True
        for p in self.procs:
            if p.dead:
                try:
                    self._reap(p)
                except HarnessError:
                    pass
        self.pending_crashes = []


# ---------------------------------------------------------------------- primitives
class SimLock:
    def __init__(self, sim: Sim, reentrant: bool = False, name: str = "lock") -> None:
        self.sim = sim
        self.owner: Any = None
        self.count = 0
        self.re = reentrant
        self.name = name

    def _me(self) -> Any:
        s = self.sim
        return s.cur if s.in_task() else "harness"

    def acquire(self, blocking: bool = True, timeout: float = -1) -> bool:
        s = self.sim
        me = self._me()
        if self.re and self.owner is me:
            self.count += 1
            return True
        if me == "harness":
            if self.owner is not None:
                raise HarnessError("harness thread blocks on a SimLock")
            self.owner = me
            self.count = 1
            return True
        s.seam("lock.acquire", self.name)
        if self.owner is not None:
            if not blocking:
                return False
            s.count("lock_contended")
            ok = s.block_until(
                lambda: self.owner is None, "lock", None if timeout is None or timeout < 0 else timeout
            )
            if not ok:
                return False
        self.owner = me
        self.count = 1
        return True

    def release(self) -> None:
        me = self._me()
        if me != "harness" and me.proc.dead:
            raise SimKilled()
        if self.owner is None:
            raise RuntimeError("release unlocked lock")
        self.count -= 1
        if self.count == 0:
            self.owner = None
            if me != "harness":
                self.sim.seam("lock.release", self.name)

    def locked(self) -> bool:
        return self.owner is not None

    def __enter__(self) -> bool:
        return self.acquire()

    def __exit__(self, *a: Any) -> None:
        self.release()


class SimEvent:
    def __init__(self, sim: Sim) -> None:
        self.sim = sim
        self._flag = False

    def is_set(self) -> bool:
        return self._flag

    def set(self) -> None:
        self._flag = True
        if self.sim.in_task():
            self.sim.seam("event.set")

    def clear(self) -> None:
        self._flag = False

    def wait(self, timeout: float | None = None) -> bool:
        s = self.sim
        if not s.in_task():
            return self._flag
        s.seam("event.wait")
        return s.block_until(lambda: self._flag, "event", timeout)


class SimThread:
    """threading.Thread replacement: the target runs as a task of the creator's process."""

    _n = 0

    def __init__(self, sim: Sim, target=None, args=(), kwargs=None, name=None, daemon=None):
        self.sim = sim
        self._target = target
        self._args = args
        self._kwargs = kwargs or {}
        self.daemon = daemon
        self.name = name
        self._task: Task | None = None

    def run(self) -> None:
        if self._target is not None:
            self._target(*self._args, **self._kwargs)

    def start(self) -> None:
        s = self.sim
        proc = s.current_proc()
        parent = s.cur.name if s.in_task() else "h"
        proc._ident_n += 0
        name = "%s/t%d" % (parent, len(proc.tasks))
        self._task = s.spawn(proc, name, self.run)
        if s.in_task():
            s.seam("thread.start")

    def join(self, timeout: float | None = None) -> None:
        s = self.sim
        t = self._task
        if t is None:
            raise RuntimeError("join before start")
        if not s.in_task():
            if not t.done:
                raise HarnessError("harness joins a live task")
            return
        s.seam("thread.join")
        s.block_until(lambda: t.done, "join", timeout)

    def is_alive(self) -> bool:
        return self._task is not None and not self._task.done


class ThreadingShim:
    """Stands in for the `threading` module inside optuna modules."""

    def __init__(self, sim: Sim) -> None:
        self._sim = sim
        self.local = threading.local
        self.current_thread = threading.current_thread

    def Lock(self) -> SimLock:
        return SimLock(self._sim, False)

    def RLock(self) -> SimLock:
        return SimLock(self._sim, True)

    def Event(self) -> SimEvent:
        return SimEvent(self._sim)

    def Thread(self, *a: Any, **k: Any) -> SimThread:
        return SimThread(self._sim, *a, **k)

    def get_ident(self) -> int:
        s = self._sim
        if s.in_task():
            return s.cur.ident
        return 999

    def __getattr__(self, name: str) -> Any:
        return getattr(threading, name)


# ---------------------------------------------------------------------- executor
class SimFuture:
    def __init__(self, sim: Sim) -> None:
        self.sim = sim
        # deterministic hash: optuna keeps futures in a set and iterates over it
        sim._nfutures = getattr(sim, "_nfutures", 0) + 1
        self._hash = sim._nfutures
        self._done = False
        self._result: Any = None
        self._exc: BaseException | None = None

    def __hash__(self) -> int:
        return self._hash

    def done(self) -> bool:
        return self._done

    def result(self, timeout: float | None = None) -> Any:
        s = self.sim
        if not self._done:
            s.seam("future.result")
            s.block_until(lambda: self._done, "future", timeout)
        if self._exc is not None:
            raise self._exc
        return self._result

    def exception(self, timeout: float | None = None) -> BaseException | None:
        if not self._done:
            self.sim.block_until(lambda: self._done, "future", timeout)
        return self._exc


class SimExecutor:
    """concurrent.futures.ThreadPoolExecutor on simulated tasks (idle workers are reused,
    FIFO work queue, shutdown(wait=True) on __exit__ - like the real one)."""

    def __init__(self, sim: Sim, max_workers: int | None = None) -> None:
        self.sim = sim
        self.max_workers = max_workers or 4
        self.queue: list[tuple] = []
        self.workers: list[Task] = []
        self.idle = 0
        self.shutdown_flag = False
        self.proc = sim.current_proc()
        self.parent = sim.cur.name if sim.in_task() else "h"

    def submit(self, fn: Any, *a: Any, **k: Any) -> SimFuture:
        s = self.sim
        f = SimFuture(s)
        self.queue.append((f, fn, a, k))
        if self.idle == 0 and len(self.workers) < self.max_workers:
            name = "%s/x%d" % (self.parent, len(self.workers))
            self.workers.append(s.spawn(self.proc, name, self._worker))
        if s.in_task():
            s.seam("executor.submit")
        return f

    def _worker(self) -> None:
        s = self.sim
        while True:
            self.idle += 1
            try:
                s.block_until(lambda: bool(self.queue) or self.shutdown_flag, "executor.idle")
            finally:
                self.idle -= 1
            if not self.queue:
                return
            f, fn, a, k = self.queue.pop(0)
            try:
                f._result = fn(*a, **k)
            except SimKilled:
                raise
            except BaseException as e:  # noqa
                f._exc = e
            f._done = True
            s.seam("executor.done")

    def shutdown(self, wait: bool = True, cancel_futures: bool = False) -> None:
        self.shutdown_flag = True
        s = self.sim
        if cancel_futures:
            import concurrent.futures

            for f, _fn, _a, _k in self.queue:
                f._exc = concurrent.futures.CancelledError()
                f._done = True
            self.queue = []
        if wait and s.in_task():
            s.seam("executor.shutdown")
            s.block_until(lambda: all(w.done for w in self.workers), "executor.join")

    def __enter__(self) -> "SimExecutor":
        return self

    def __exit__(self, *a: Any) -> None:
        self.shutdown(wait=True)


def sim_wait(sim: Sim, fs: Any, timeout: float | None = None, return_when: str = "ALL_COMPLETED") -> tuple:
    fs = set(fs)
    if return_when == "FIRST_COMPLETED":
        pred = lambda: any(f._done for f in fs)  # noqa
    else:
        pred = lambda: all(f._done for f in fs)  # noqa
    if not pred():
        sim.seam("futures.wait")
        sim.block_until(pred, "futures.wait", timeout)
    done = {f for f in fs if f._done}
    return done, fs - done
