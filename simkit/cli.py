from __future__ import annotations

import os
import sys


def main(argv: list[str]) -> int:
    from . import runner

    if len(argv) < 2:
        print("usage: check <Cxx> quick|thorough | check replay <file> | check selftest <what>")
        return 2
    import optuna

    assert optuna.__file__.startswith(os.environ.get("VERIF_OPTUNA_ROOT", "/repo/")), "optuna must be imported from /repo: " + optuna.__file__
    optuna.logging.set_verbosity(optuna.logging.CRITICAL)
    if argv[0] == "replay":
        return runner.replay(argv[1])
    if argv[0] == "selftest":
        from . import selftest

        return selftest.main(argv[1:])
    cid, tier = argv[0], argv[1]
    tier = os.environ.get("VERIF_TIER", tier)
    if tier not in ("quick", "thorough"):
        tier = "quick"
    return runner.run_check(cid, tier)


if __name__ == "__main__":
    sys.exit(main(sys.argv[1:]))
