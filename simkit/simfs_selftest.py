"""SimFS vs the real file system: a Hypothesis rule-based machine applies the same
operation to SimFS and to a temp directory and compares results / exception classes /
errno.  SimFS is the one stub whose fidelity the journal checks (C05-C07) rest on."""
from __future__ import annotations

import os
import shutil
import tempfile
from typing import Any

import hypothesis.strategies as st
from hypothesis import seed, settings
from hypothesis.stateful import RuleBasedStateMachine, invariant, precondition, rule, run_state_machine_as_test

from . import fs as fsmod
from . import sched

NAMES = ["log", "log.lock", "log.lock.x.rename", "other"]


class _NoSim:
    """SimFS only needs seam()/count()/now/cur from the simulator."""

    now = 1000.0
    cur = None
    seq = 0

    def seam(self, *a: Any) -> None:
        pass

    def count(self, *a: Any) -> None:
        pass


class Machine(RuleBasedStateMachine):
    def __init__(self) -> None:
        super().__init__()
        self.dir = tempfile.mkdtemp(prefix="simfs-selftest-")
        self.sim = fsmod.SimFS(_NoSim(), read_block=7)
        self.readers: list[tuple[Any, Any]] = []

    def teardown(self) -> None:
        for r, s in self.readers:
            try:
                r.close()
            except Exception:
                pass
        shutil.rmtree(self.dir, ignore_errors=True)

    def rp(self, n: str) -> str:
        return os.path.join(self.dir, n)

    def both(self, real: Any, sim: Any) -> None:
        def run(f: Any) -> Any:
            try:
                return ("ok", f())
            except OSError as e:
                return ("err", type(e).__name__, e.errno)

        a, b = run(real), run(sim)
        assert a == b, (a, b)

    @rule(n=st.sampled_from(NAMES), data=st.binary(min_size=0, max_size=40))
    def append(self, n: str, data: bytes) -> None:
        def real() -> int:
            with open(self.rp(n), "ab") as f:
                f.write(data)
                f.flush()
                os.fsync(f.fileno())
            return os.stat(self.rp(n)).st_size

        def sim() -> int:
            with self.sim.open("/" + n, "ab") as f:
                f.write(data)
                f.flush()
                self.sim.fsync(f.fileno())
            return self.sim.stat("/" + n).st_size

        self.both(real, sim)

    @rule(n=st.sampled_from(NAMES), off=st.integers(0, 60))
    def read_lines(self, n: str, off: int) -> None:
        def real() -> list:
            with open(self.rp(n), "rb") as f:
                f.seek(off)
                return list(f)

        def sim() -> list:
            with self.sim.open("/" + n, "rb") as f:
                f.seek(off)
                return list(f)

        self.both(real, sim)

    @rule(n=st.sampled_from(NAMES))
    def exists(self, n: str) -> None:
        self.both(lambda: os.path.exists(self.rp(n)), lambda: self.sim.exists("/" + n))

    @rule(n=st.sampled_from(NAMES))
    def size(self, n: str) -> None:
        self.both(lambda: os.stat(self.rp(n)).st_size, lambda: self.sim.stat("/" + n).st_size)

    @rule(src=st.sampled_from(NAMES), dst=st.sampled_from(NAMES))
    def symlink(self, src: str, dst: str) -> None:
        self.both(lambda: os.symlink(self.rp(src), self.rp(dst)), lambda: self.sim.symlink("/" + src, "/" + dst))

    @rule(a=st.sampled_from(NAMES), b=st.sampled_from(NAMES))
    def rename(self, a: str, b: str) -> None:
        if a == b:
            return
        # renaming over an existing directory entry of another kind is not used by optuna
        self.both(lambda: os.rename(self.rp(a), self.rp(b)), lambda: self.sim.rename("/" + a, "/" + b))

    @rule(a=st.sampled_from(NAMES))
    def unlink(self, a: str) -> None:
        self.both(lambda: os.unlink(self.rp(a)), lambda: self.sim.unlink("/" + a))

    @rule(a=st.sampled_from(NAMES))
    def excl_create(self, a: str) -> None:
        def real() -> None:
            os.close(os.open(self.rp(a), os.O_CREAT | os.O_EXCL | os.O_WRONLY))

        def sim() -> None:
            self.sim.os_close(self.sim.os_open("/" + a, os.O_CREAT | os.O_EXCL | os.O_WRONLY))

        self.both(real, sim)

    @rule(n=st.sampled_from(NAMES), data=st.binary(min_size=1, max_size=20))
    def repair_and_append(self, n: str, data: bytes) -> None:
        """The ab+ sequence of append_logs: seek end, read last byte, scan back, truncate."""

        def go(f: Any) -> tuple:
            end = f.seek(0, os.SEEK_END)
            last = b""
            if end:
                f.seek(end - 1)
                last = f.read(1)
                if last != b"\n":
                    start = max(0, end - 9)
                    f.seek(start)
                    i = f.read(end - start).rfind(b"\n")
                    f.truncate(start + i + 1 if i >= 0 else start)
            f.write(data)
            f.flush()
            return (end, last)

        def real() -> tuple:
            with open(self.rp(n), "ab+") as f:
                r = go(f)
            return r + (open(self.rp(n), "rb").read(),)

        def sim() -> tuple:
            with self.sim.open("/" + n, "ab+") as f:
                r = go(f)
            return r + (self.sim.raw("/" + n),)

        self.both(real, sim)

    @invariant()
    def same_contents(self) -> None:
        for n in NAMES:
            p = self.rp(n)
            if os.path.islink(p) or not os.path.exists(p):
                continue
            assert open(p, "rb").read() == self.sim.raw("/" + n), n


def main(argv: list[str]) -> int:
    n = int(argv[0]) if argv else 300
    base = int(os.environ.get("VERIF_SEED", "0"))
    run_state_machine_as_test(seed(base)(Machine), settings=settings(max_examples=n, stateful_step_count=30, database=None, deadline=None, report_multiple_bugs=False))
    print("simfs selftest: %d examples x <=30 steps: SimFS agrees with the real file system" % n)
    return 0
