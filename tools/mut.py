#!/venv/bin/python
"""Apply a textual mutant to a scratch copy of optuna and run a check against it.

usage: mut.py <check> <budget_s> <relative file> <old> <new> [<relative file> <old> <new> ...]
Exit code / output of the check are passed through.  The scratch copy is removed.
"""
import os
import shutil
import subprocess
import sys
import tempfile


def main() -> int:
    check, budget = sys.argv[1], sys.argv[2]
    edits = sys.argv[3:]
    d = tempfile.mkdtemp(prefix="mut-")
    try:
        shutil.copytree("/repo/optuna", os.path.join(d, "optuna"), ignore=shutil.ignore_patterns("__pycache__"))
        for i in range(0, len(edits), 3):
            p = os.path.join(d, edits[i])
            s = open(p).read()
            old, new = edits[i + 1], edits[i + 2]
            if s.count(old) != 1:
                print("mutant does not apply: %d occurrences of %r in %s" % (s.count(old), old, edits[i]))
                return 3
            open(p, "w").write(s.replace(old, new))
        env = dict(os.environ)
        env.update({"VERIF_OPTUNA_ROOT": d + "/", "PYTHONPATH": d, "VERIF_BUDGET_S": budget, "VERIF_REPLAY_DIR": os.path.join(d, "replays"), "VERIF_EVIDENCE_DIR": os.path.join(d, "evidence")})
        env.setdefault("VERIF_WORKERS", "8")
        r = subprocess.run(["/verif/check", check, "quick"], env=env, capture_output=True, text=True)
        lines = [l for l in r.stdout.splitlines() if l.startswith(("VIOLATION", "violation:", "KNOWN", "HARNESS", check))]
        print("\n".join(l[:300] for l in lines[:12]))
        print("exit", r.returncode)
        return r.returncode
    finally:
        shutil.rmtree(d, ignore_errors=True)


if __name__ == "__main__":
    sys.exit(main())
