import sys, os, json
sys.path.insert(0,'/verif')
os.environ['VERIF_DEPLOYMENTS']=sys.argv[1]
import importlib
c=importlib.import_module(sys.argv[2])
import optuna; optuna.logging.set_verbosity(optuna.logging.CRITICAL)
import warnings; warnings.simplefilter('ignore')
want=sys.argv[3] if len(sys.argv)>3 else ''
n=0
for i in range(int(sys.argv[4]) if len(sys.argv)>4 else 200):
    p=c.gen_plan(0,i,'quick'); r=c.run_plan(p)
    if r['status']=='violation' and want in r['signature']:
        print(i, r['signature'][:400]); print(r['detail'][:3000]); n+=1
        if n>=int(sys.argv[5]) if len(sys.argv)>5 else 1: break
