#!/venv/bin/python
"""Re-run every kept seeded change (/verif/seeded/*) against the check recorded in its meta.json.
usage: seeded_all.py [budget_s] [shard/nshards]   -> table; exit 1 if any change is missed."""
import json, os, subprocess, sys
budget = sys.argv[1] if len(sys.argv) > 1 else "60"
shard, nshards = (int(x) for x in (sys.argv[2] if len(sys.argv) > 2 else "0/1").split("/"))
root = "/verif/seeded"
missed = 0
for idx, name in enumerate(sorted(os.listdir(root))):
    if idx % nshards != shard:
        continue
    d = os.path.join(root, name)
    meta = json.load(open(os.path.join(d, "meta.json")))
    if meta.get("documented_uncaught"):
        print("%-6s %-4s %-7s %s" % (name, "-", "uncaught (documented)", meta["documented_uncaught"][:100]), flush=True)
        continue
    check = meta.get("verified_by_coordinator", {}).get("check") or meta.get("property")
    p = subprocess.run(["/verif/tools/seeded.py", d, check, budget, "--no-demo"], capture_output=True, text=True)
    txt = p.stdout[p.stdout.find("{"):] if "{" in p.stdout else "{}"
    try:
        res = json.loads(txt)
    except Exception:
        res = {}
    ok = bool(res.get("caught"))
    missed += 0 if ok else 1
    print("%-6s %-4s %-7s %s" % (name, check, "caught" if ok else "MISSED", ((res.get("check_lines") or [""])[0])[:140]), flush=True)
print("missed:", missed)
sys.exit(1 if missed else 0)
