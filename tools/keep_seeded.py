#!/venv/bin/python
"""keep_seeded.py <seed-out dir> <check> [budget]: run tools/seeded.py, and if the change is confirmed
(demo passes without / fails with the patch) copy it to /verif/seeded/<name>/ with the result in meta.json."""
import json, os, shutil, subprocess, sys
src, check = sys.argv[1].rstrip("/"), sys.argv[2]
budget = sys.argv[3] if len(sys.argv) > 3 else "45"
p = subprocess.run(["/verif/tools/seeded.py", src, check, budget], capture_output=True, text=True)
txt = p.stdout[p.stdout.find("{"):] if "{" in p.stdout else ""
try:
    res = json.loads(txt)
except Exception:
    print("no result:", p.stdout[-1500:], p.stderr[-500:]); sys.exit(3)
name = os.path.basename(src)
confirmed = res.get("demo_without_patch_exit") == 0 and res.get("demo_with_patch_exit") not in (0, None)
print(name, "confirmed" if confirmed else "NOT CONFIRMED", "caught" if res.get("caught") else "MISSED", (res.get("check_lines") or [""])[0][:150])
if not confirmed:
    print(json.dumps(res, indent=1)[:1500]); sys.exit(2)
dst = os.path.join("/verif/seeded", name)
os.makedirs(dst, exist_ok=True)
for f in os.listdir(src):
    if f.startswith(("patch.diff", "demo", "meta.json")):
        shutil.copy(os.path.join(src, f), dst)
meta = {}
mp = os.path.join(dst, "meta.json")
if os.path.exists(mp):
    try: meta = json.load(open(mp))
    except Exception: meta = {"note": "original meta.json unparsable"}
meta["property"] = meta.get("property", check)
meta["verified_by_coordinator"] = {
    "commands": ["tools/seeded.py %s %s %s  (scratch git worktree of /repo: demo on unchanged copy, git apply patch.diff, demo again, then ./check %s quick with PYTHONPATH on the patched copy)" % (src, check, budget, check)],
    "demo_without_patch_exit": res.get("demo_without_patch_exit"), "demo_with_patch_exit": res.get("demo_with_patch_exit"),
    "check": check, "check_exit": res.get("check_exit"), "caught": res.get("caught"), "check_lines": res.get("check_lines"),
}
json.dump(meta, open(mp, "w"), indent=1)
sys.exit(0 if res.get("caught") else 1)
