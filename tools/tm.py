import sys, time, os
sys.path.insert(0,'/verif')
os.environ['VERIF_DEPLOYMENTS']=sys.argv[1]
import importlib
c=importlib.import_module(sys.argv[2] if len(sys.argv)>2 else 'checks.c03_linear')
import optuna; optuna.logging.set_verbosity(optuna.logging.CRITICAL)
import warnings; warnings.simplefilter('ignore')
c.run_plan(c.gen_plan(0,0,'quick'))
t=time.time(); st={}
N=int(sys.argv[3]) if len(sys.argv)>3 else 100
for i in range(N):
    p=c.gen_plan(0,i,'quick'); r=c.run_plan(p); st[r['status']]=st.get(r['status'],0)+1
    if r['status']=='violation' and len(sys.argv)>4: print(r['signature'][:300])
print(sys.argv[1], (time.time()-t)/N*1000,'ms/run', st)
