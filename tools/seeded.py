#!/venv/bin/python
"""Confirm an independently seeded change and run a check against it.

usage: seeded.py <seeded dir with patch.diff + demo*.py> <check id> [budget_s] [--no-demo]

1. scratch copy of /repo (git worktree outside /repo and /verif), 2. demo on the unchanged
copy must pass, 3. `git apply patch.diff`, demo must fail, 4. the check runs against the
patched copy (PYTHONPATH) and must print VIOLATION / exit 1.  The scratch copy is removed.
"""
import glob
import json
import os
import shutil
import subprocess
import sys
import tempfile


def run(cmd, cwd=None, env=None, timeout=1800):
    p = subprocess.run(cmd, cwd=cwd, env=env, capture_output=True, text=True, timeout=timeout)
    return p.returncode, (p.stdout + p.stderr)


def main() -> int:
    sdir, check = sys.argv[1], sys.argv[2]
    budget = sys.argv[3] if len(sys.argv) > 3 and not sys.argv[3].startswith("--") else "45"
    no_demo = "--no-demo" in sys.argv
    wt = tempfile.mkdtemp(prefix="seedchk-")
    os.rmdir(wt)
    out = {"seeded": sdir, "check": check}
    rc, o = run(["git", "-C", "/repo", "worktree", "add", "--detach", wt, "HEAD"])
    if rc != 0:
        print(o)
        return 3
    try:
        env = dict(os.environ, PYTHONPATH=wt, PYTHONHASHSEED="0")
        demos = sorted(glob.glob(os.path.join(sdir, "demo*.py")))
        demo = demos[0] if demos else None

        def run_demo():
            if demo is None:
                return None, ""
            if os.path.basename(demo).endswith("_test.py"):
                return run(["/venv/bin/python", "-m", "pytest", "-q", "-p", "no:cacheprovider", demo], cwd=wt, env=env, timeout=900)
            return run(["/venv/bin/python", demo], cwd=wt, env=env, timeout=900)

        if not no_demo:
            rc0, o0 = run_demo()
            out["demo_without_patch_exit"] = rc0
        rc, o = run(["git", "-C", wt, "apply", os.path.join(sdir, "patch.diff")])
        if rc != 0:
            print("patch does not apply:", o)
            return 3
        if not no_demo:
            rc1, o1 = run_demo()
            out["demo_with_patch_exit"] = rc1
            out["demo_with_patch_tail"] = o1[-400:]
        cenv = dict(os.environ)
        cenv.update({"VERIF_OPTUNA_ROOT": wt + "/", "PYTHONPATH": wt, "VERIF_BUDGET_S": budget, "VERIF_REPLAY_DIR": os.path.join(wt, "_replays"), "VERIF_EVIDENCE_DIR": os.path.join(wt, "_evidence")})
        cenv.setdefault("VERIF_WORKERS", "8")
        rc2, o2 = run(["/verif/check", check, "quick"], env=cenv, timeout=3600)
        lines = [l for l in o2.splitlines() if l.startswith(("VIOLATION", "violation:", "KNOWN", "HARNESS", check))]
        out["check_exit"] = rc2
        out["check_lines"] = [l[:260] for l in lines[:8]]
        out["caught"] = rc2 == 1 and any(l.startswith("VIOLATION") for l in lines)
        print(json.dumps(out, indent=1))
        return 0 if out["caught"] else 1
    finally:
        run(["git", "-C", "/repo", "worktree", "remove", "--force", wt])
        shutil.rmtree(wt, ignore_errors=True)


if __name__ == "__main__":
    sys.exit(main())
